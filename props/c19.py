"""C19 - generated names are unique and legal: obligations over the real name-encoding functions (E2 / mirsym)."""
import json, itertools
import z3
from vlib import e2, build
from vlib.core import Ob, Finding
import mirsym as ms
from mirsym.engine import Unsupported

GO_KEYWORDS = ['break', 'default', 'func', 'interface', 'select', 'case', 'defer', 'go', 'map', 'struct', 'chan', 'else', 'goto', 'package',
               'switch', 'const', 'fallthrough', 'if', 'range', 'type', 'continue', 'for', 'import', 'return', 'var']      # Go spec, "Keywords"
CRATES = ('compiler', 'common_defs', 'diagnostics')

def char_domain(c, alphabet):
    """alphabet None = every Unicode scalar value"""
    if alphabet is None: return z3.And(c >= 0, c <= 0x10FFFF, z3.Or(c < 0xD800, c > 0xDFFF))
    return z3.Or(*[c == ord(x) for x in alphabet])

def run_go_ident(r, W, tag, n, alphabet, prefix=''):
    cs = [z3.Int('%s%d' % (tag, i)) for i in range(n)]
    ass = [char_domain(c, alphabet) for c in cs]
    def entry(ex): return ex.call('go_ident', [ms.Str([ord(ch) for ch in prefix] + cs)])
    res = e2.explore(r, W, entry, ass)
    return cs, ass, res

def is_ident_start(c): return z3.Or(z3.And(c >= 65, c <= 90), z3.And(c >= 97, c <= 122), c == 95)
def is_ident_part(c): return z3.Or(is_ident_start(c), z3.And(c >= 48, c <= 57))

def native_go_ident(names):
    req = '\n'.join(json.dumps({'fn': 'go_ident', 'args': [n]}) for n in names) + '\n'
    rc, out, errt = build.run_driver('vreplay', req)
    outs = [json.loads(l) for l in out.splitlines() if l.strip()]
    if rc != 0 or len(outs) != len(names): raise Unsupported('native driver failed: ' + errt[-300:])
    return [o.get('ok') for o in outs]

# ----------------------------------------------------------------------------- O19.1 legality
def ob_legal(r, tier, seed, maxlen, alphabet):
    W = e2.fresh_world(CRATES)
    r.bounds = 'names of 1..%d chars over %s; plus the 25 Go keywords and "" as whole strings' % (maxlen, 'every Unicode scalar value' if alphabet is None else repr(alphabet))
    r.assumptions = ['input is a Rust &str (valid UTF-8); Go identifier = [A-Za-z_][A-Za-z0-9_]* (the ASCII subset the emitter targets), keywords per Go spec']
    for n in range(0, maxlen + 1):
        cs, ass, res = run_go_ident(r, W, 'c', n, alphabet)
        for p in res:
            r.cases += 1
            if p.kind != 'ok':
                m, _ = e2.check(ass + p.pc)
                name = e2.concrete_str(m, cs)
                nat = native_go_ident([name])
                r.findings.append(Finding('panic', 'go_ident panics: ' + str(p.value), {'name': name}, nat[0] is None)); continue
            out = p.value.chars
            bad = []
            if not out: bad.append(z3.BoolVal(True))
            else:
                bad.append(z3.Not(is_ident_start(ms.zi(out[0]))))
                bad += [z3.Not(is_ident_part(ms.zi(c))) for c in out[1:]]
                for kw in GO_KEYWORDS:
                    e = ms.str_eq(out, [ord(ch) for ch in kw])
                    if e is not False: bad.append(ms.zi(e))
            m, dt = e2.check(ass + p.pc + [z3.Or(*bad)]); r.queries += 1; r.solver_s += dt
            r.nontrivial += 1
            if m is not None:
                name = e2.concrete_str(m, cs); nat = native_go_ident([name])[0]
                legal = bool(nat) and (nat[0].isalpha() or nat[0] == '_') and all((ch.isalnum() and ord(ch) < 128) or ch == '_' for ch in nat) and nat not in GO_KEYWORDS
                r.findings.append(Finding('illegal-identifier', 'go_ident(%r) = %r is not a legal non-keyword Go identifier' % (name, nat), {'name': name, 'native': nat}, not legal))
            elif len(r.samples) < 4:
                m2, _ = e2.check(ass + p.pc)
                r.samples.append({'name': e2.concrete_str(m2, cs), 'go_ident': e2.concrete_str(m2, out)})
    for kw in GO_KEYWORDS:
        def entry(ex, kw=kw): return ex.call('go_ident', [ms.mkstr(kw)])
        res = e2.explore(r, W, entry, [])
        for p in res:
            r.cases += 1; r.nontrivial += 1
            out = ms.pystr(p.value) if p.kind == 'ok' else None
            if out is None or out in GO_KEYWORDS or not (out[0].isalpha() or out[0] == '_'):
                r.findings.append(Finding('keyword-leak', 'go_ident(%r) = %r' % (kw, out), {'name': kw}, native_go_ident([kw])[0] == out))

# ----------------------------------------------------------------------------- O19.3 injectivity
def skeleton_compatible(x, y):
    if len(x) != len(y): return False
    for p, q in zip(x, y):
        if isinstance(p, int) and isinstance(q, int) and p != q: return False
    return True

def role_hash_underscore(a, b):
    if len(a) != len(b): return z3.BoolVal(False)
    hu = lambda c: z3.Or(c == 35, c == 95)
    return z3.And(*[z3.Or(x == y, z3.And(hu(x), hu(y))) for x, y in zip(a, b)]) if a else z3.BoolVal(False)

def role_escape_spelled(a, b):
    def spelled(x):
        return z3.Or(*[z3.And(z3.Or(x[i] == 95, x[i] == 35), x[i + 1] == 120) for i in range(len(x) - 1)]) if len(x) >= 2 else z3.BoolVal(False)
    return z3.Or(spelled(a), spelled(b))

ROLES = [('hash-vs-underscore', role_hash_underscore, "go_ident maps both '#' and '_' to '_': names equal up to #/_ get one Go identifier"),
         ('escape-spelled-in-name', role_escape_spelled, "a name that spells an escape sequence (`_x..`/`#x..`) collides with the escaped character")]

def ob_injective(r, tier, seed, la, lb, alphabet, prefix_a='', shard=(0, 1)):
    W = e2.fresh_world(CRATES)
    r.bounds = 'pairs of names (|a| = %d%s, |b| = %d) over %s' % (la, ' after fixed prefix %r' % prefix_a if prefix_a else '', lb, 'every Unicode scalar value' if alphabet is None else repr(alphabet))
    ca, aa, ra = run_go_ident(r, W, 'a', la, alphabet, prefix_a)
    cb, ab, rb = run_go_ident(r, W, 'b', lb, alphabet)
    full_a = [ord(ch) for ch in prefix_a] + ca
    distinct = z3.BoolVal(True) if len(full_a) != lb else z3.Or(*[ms.zi(x) != ms.zi(y) for x, y in zip(full_a, cb)])
    roles = []; prior = []
    for k, f, what in ROLES:                      # role k = predicate k and none of the earlier ones (classes are disjoint)
        rf = f(full_a, cb); roles.append((k, z3.And(rf, *[z3.Not(x) for x in prior]), what)); prior.append(rf)
    if prefix_a: roles.append(('reserved-prefix-in-name', z3.And(*([is_ident_part(c) for c in ca] + [z3.Not(x) for x in prior])), 'a user-spellable identifier that starts with the reserved prefix `_goml_` collides with a mangled name'))
    symmetric = la == lb and not prefix_a
    r.bounds += '; shard %d/%d of the path pairs' % (shard[0] + 1, shard[1]) if shard[1] > 1 else ''
    found = {}
    for ia, pa in enumerate(ra):
        if pa.kind != 'ok': raise Unsupported('go_ident panicked in injectivity run: %s' % pa.value)
        if ia % shard[1] != shard[0]: continue
        for ib, pb in enumerate(rb):
            if symmetric and ib < ia: continue
            if pb.kind != 'ok': raise Unsupported('go_ident panicked in injectivity run: %s' % pb.value)
            if not skeleton_compatible(pa.value.chars, pb.value.chars): continue
            r.cases += 1
            eq = ms.str_eq(pa.value.chars, pb.value.chars)
            if eq is False: continue
            base = aa + ab + pa.pc + pb.pc + [ms.zi(eq), distinct]
            m, dt = e2.check(base + [z3.Not(rf) for _, rf, _ in roles]); r.queries += 1; r.solver_s += dt
            r.nontrivial += 1
            if m is not None and 'unclassified' not in found:
                found['unclassified'] = (m, 'two distinct names get the same Go identifier (outside every known collision class)')
            for k, rf, what in roles:
                if k in found: continue
                m, dt = e2.check(base + [rf]); r.queries += 1; r.solver_s += dt
                if m is not None: found[k] = (m, what)
    for k, (m, what) in found.items():
        na, nb = e2.concrete_str(m, full_a), e2.concrete_str(m, cb)
        nat = native_go_ident([na, nb])
        r.findings.append(Finding(k, '%s: go_ident(%r) == go_ident(%r) == %r' % (what, na, nb, nat[0]), {'a': na, 'b': nb, 'native': nat}, nat[0] is not None and nat[0] == nat[1] and na != nb))
    if not r.samples:
        r.samples.append({'paths_a': len(ra), 'paths_b': len(rb), 'compatible_pairs': r.cases})

def obligations():
    obs = []
    obs.append(Ob('O19.1-legal-unicode-3', 'go_ident yields a legal non-keyword Go identifier (<=3 chars, all of Unicode)', ob_legal, ('quick', 'thorough'), 3, dict(maxlen=3, alphabet=None)))
    obs.append(Ob('O19.1-legal-unicode-4', 'go_ident legality, 4 chars, all of Unicode', ob_legal, ('thorough',), 8, dict(maxlen=4, alphabet=None)))
    A2 = 'x3a_#:'
    for la in range(1, 4):
        for lb in range(la, 4):
            K = 6 if (la, lb) == (3, 3) else 1
            for sh in range(K):
                obs.append(Ob('O19.3-inj-unicode-%d-%d%s' % (la, lb, '-s%d' % sh if K > 1 else ''), 'go_ident injective on name pairs (all of Unicode)', ob_injective, ('quick', 'thorough'), la * lb, dict(la=la, lb=lb, alphabet=None, shard=(sh, K))))
    for lb in (4,):
        for la in range(1, 5):
            K = {1: 1, 2: 2, 3: 8, 4: 24}[la]
            for sh in range(K):
                obs.append(Ob('O19.3-inj-unicode-%d-%d%s' % (la, lb, '-s%d' % sh if K > 1 else ''), 'go_ident injective on name pairs (all of Unicode)', ob_injective, ('thorough',), 30 * la, dict(la=la, lb=lb, alphabet=None, shard=(sh, K))))
    for la, lb in ((5, 1), (5, 2), (6, 1)):
        obs.append(Ob('O19.3-inj-spell-%d-%d' % (la, lb), 'go_ident injective: long name vs short name over %r' % A2, ob_injective, ('quick', 'thorough') if la == 5 and lb == 1 else ('thorough',), 10, dict(la=la, lb=lb, alphabet=A2)))
    for la, lb in ((2, 2), (5, 1), (5, 2)):
        obs.append(Ob('O19.3-inj-prefix-%d-%d' % (la, lb), 'go_ident injective: `_goml_`+suffix vs short name over %r' % A2, ob_injective, ('quick', 'thorough') if (la, lb) != (5, 2) else ('thorough',), 10, dict(la=la, lb=lb, alphabet=A2, prefix_a='_goml_')))
    from props import enc_ob
    obs += enc_ob.obligations('O19.4-encode_ty')
    return obs

META = {
    'level': 'other',
    'explanation': 'Bounded solver-checked obligations over the real code: the MIR of go_ident, is_valid_go_ident (+closure) and is_go_keyword of the current tree is executed symbolically (mirsym); every feasible path\'s output is a list of z3 terms over the symbolic input characters; legality and pairwise injectivity are asserted per path (pair) and decided by z3 for all names within the stated lengths over every Unicode scalar value. Counterexamples are replayed through the native function before being reported; known collision classes are role predicates listed in known_findings.json.',
    'assumptions': ['MIR from the nightly toolchain has the same semantics as the stable build', 'std models listed per obligation are faithful (String::push, chars, encode_utf8, {:02x} formatting, str ==)',
                    'outside the claim: names longer than the bounds; uniqueness over a whole emitted program; variant_struct_name; local renaming'],
    'trusted_base': ['mirsym MIR interpreter', 'std library models (evidence: library_models)', 'z3', 'rustc nightly MIR dump', 'rustdoc JSON type tables'],
}

# ----------------------------------------------------------------------------- O19.5 compiler temporaries vs user-chosen top-level names
def gensym_prefixes():
    """prefixes passed to Gensym::gensym, read from the MIR of the current tree (constant string operands of the calls)"""
    import re
    W = e2.world(CRATES); text = W.files['compiler'].text; out = set()
    for m in re.finditer(r'Gensym::gensym\((?:copy|move) _\d+, (?:(?:copy|move) (_\d+)|const "([^"]*)")\)', text):
        if m.group(2) is not None: out.add(m.group(2)); continue
        start = text.rfind('\nfn ', 0, m.start()); window = text[start:m.start()]
        d = re.findall(r'\b%s = const "([^"]*)";' % re.escape(m.group(1)), window)
        if d: out.add(d[-1])
    return sorted(out)

def ob_gensym_vs_user(r, tier, seed):
    import os, subprocess, tempfile, shutil
    W = e2.fresh_world(CRATES)
    prefixes = gensym_prefixes()
    if not prefixes: raise Unsupported('no Gensym::gensym call sites found in the MIR dump')
    counters = [0, 3, 12]
    r.bounds = 'Gensym::gensym for every prefix used in the compiler %s and counter values %s, against every user identifier of <= 5 characters over [a-z0-9_] (symbolic) passed through go_ident' % (prefixes, counters)
    r.assumptions = ['top-level user names (functions) are emitted through go_ident without a uniquifying suffix; locals get `__<id>` and are not considered',
                     'a user identifier is [A-Za-z_][A-Za-z0-9_]* (the lexer\'s identifier class)']
    found = None
    for pre in prefixes:
        for cnt in counters:
            def entry(ex, pre=pre, cnt=cnt):
                h = {0: ms.engine.Agg('compiler::env::Gensym', 0, [ms.engine.Cell_(cnt)])}
                return ex.call('env::Gensym::gensym', [ms.Ref(h, 0), ms.mkstr(pre)])
            res = e2.explore(r, W, entry, [])
            for p in res:
                r.cases += 1
                if p.kind != 'ok': raise Unsupported('gensym panicked: %s' % p.value)
                tmp = p.value.chars; n = len(tmp)
                if n > 5: continue
                cs, ass, res2 = run_go_ident(r, W, 'u', n, 'abcdefghijklmnopqrstuvwxyz0123456789_')
                for q in res2:
                    if q.kind != 'ok': continue
                    eq = ms.str_eq(q.value.chars, tmp)
                    if eq is False: continue
                    m, dt = e2.check(ass + q.pc + [ms.zi(eq), is_ident_start(cs[0])] + [is_ident_part(c) for c in cs[1:]]); r.queries += 1; r.solver_s += dt
                    r.nontrivial += 1
                    if m is not None and found is None: found = (e2.concrete_str(m, cs), pre, cnt)
    if found:
        name, pre, cnt = found
        src = 'fn t2() -> int32 { 1 }\nfn t3() -> int32 { 2 }\nfn main() -> unit {\n  let a = t2() + t3() + t2();\n  string_println(int32_to_string(a))\n}\n'
        d = tempfile.mkdtemp(prefix='vf-c19-')
        try:
            open(os.path.join(d, 'main.gom'), 'w').write(src)
            out = subprocess.run([build.compiler_bin(), 'run', '--dump-go', os.path.join(d, 'main.gom')], capture_output=True, text=True, timeout=60).stdout
        finally: shutil.rmtree(d, ignore_errors=True)
        body = out[out.find('func main0'):].split('func main()')[0]
        import re
        decl = re.search(r'var (t\d+) int32 = (t2|t3)\(\)', body)
        ok_ = bool(decl) and any(re.search(r'= %s\(\)' % re.escape(decl.group(1)), l) for l in body[decl.end():].splitlines())
        r.findings.append(Finding('temporary-captures-user-function', 'a compiler temporary can have the name of a user function: gensym(%r) at counter %d = go_ident(%r) = %r; inside a function body the local then shadows the function' % (pre, cnt, name, name),
                                  {'user_name': name, 'prefix': pre, 'counter': cnt}, ok_, 'goml functions t2/t3 called twice: emitted main0 = ' + body[:300].replace('\n', ' | ')))
    r.samples.append({'prefixes': prefixes, 'counters': counters})

_c19_obl = obligations
def obligations():
    return _c19_obl() + [Ob('O19.5-temporaries-vs-user-names', 'compiler temporaries never have the name of a user-chosen top-level identifier', ob_gensym_vs_user, ('quick', 'thorough'), 2, {})]

# ----------------------------------------------------------------------------- O19.2 reserved names of the Go output
GO_PREDECLARED = ['nil', 'true', 'false', 'iota', 'len', 'cap', 'append', 'make', 'new', 'copy', 'delete', 'panic', 'recover', 'print', 'println', 'close', 'complex', 'real', 'imag', 'min', 'max', 'clear',
                  'int', 'int8', 'int16', 'int32', 'int64', 'uint', 'uint8', 'uint16', 'uint32', 'uint64', 'uintptr', 'float32', 'float64', 'complex64', 'complex128', 'bool', 'string', 'byte', 'rune', 'error', 'any', 'comparable']
OUTPUT_NAMES = ['main', 'main0', 'fmt']      # the entry point wrapper, the renamed user main, the imported package

def ob_reserved(r, tier, seed):
    import os, subprocess, tempfile, shutil, json as _j
    W = e2.fresh_world(CRATES)
    names = OUTPUT_NAMES + GO_PREDECLARED
    rc, out, errt = build.run_driver('vreplay', '\n'.join(_j.dumps({'fn': 'lex', 'args': [n]}) for n in names) + '\n')
    spellable = [n for n, l in zip(names, out.splitlines()) if [t[0] for t in _j.loads(l)['ok']] == ['Ident']]
    r.bounds = 'every name the emitted Go relies on (%s + Go predeclared identifiers) that the goml lexer accepts as a user identifier: %s' % (OUTPUT_NAMES, spellable)
    r.assumptions = ['oracle: a user-spellable identifier equal to such a name must not come out of go_ident unchanged (a user function of that name would be emitted next to / shadow it)',
                     '`main` itself is excluded: it is the program entry point and is renamed by the code generator']
    hits = []
    for n in spellable:
        if n == 'main': continue
        res = e2.explore(r, W, lambda ex, n=n: ex.call('go_ident', [ms.mkstr(n)]), [])
        for p in res:
            r.cases += 1; r.nontrivial += 1
            if p.kind == 'ok' and ms.pystr(p.value) == n: hits.append(n)
    if hits:
        conf = []
        for n in [h for h in hits if h in ('main0', 'fmt')]:
            d = tempfile.mkdtemp(prefix='vf-c19-')
            try:
                open(os.path.join(d, 'main.gom'), 'w').write('fn %s() -> int32 { 1 }\nfn main() -> unit { string_println(int32_to_string(%s())) }\n' % (n, n))
                o = subprocess.run([build.compiler_bin(), 'run', '--dump-go', os.path.join(d, 'main.gom')], capture_output=True, text=True, timeout=60).stdout
            finally: shutil.rmtree(d, ignore_errors=True)
            if n == 'main0' and o.count('func main0()') == 2: conf.append('`fn main0` is emitted next to the generated `func main0` (declared twice)')
            if n == 'fmt' and 'func fmt()' in o and '"fmt"' in o: conf.append('`fn fmt` is emitted as `func fmt()` next to `import "fmt"` (redeclared)')
        r.findings.append(Finding('reserved-name-unmangled', 'go_ident leaves names unchanged that the emitted Go relies on: %s; %s' % (hits, '; '.join(conf)), {'names': hits}, bool(conf), '; '.join(conf)))
    r.samples.append({'spellable': spellable})

_c19_obl2 = obligations
def obligations():
    return _c19_obl2() + [Ob('O19.2-reserved-names', 'user-spellable names the output relies on are mangled', ob_reserved, ('quick', 'thorough'), 1, {})]

_c19_obl3 = obligations
def obligations():
    from props import selftest_ob
    return _c19_obl3() + selftest_ob.mangle_obligations('O19.0')

# ----------------------------------------------------------------------------- O19.6 a struct field has ONE Go name: declaration, literal and every read agree
def ob_field_names(r, tier, seed):
    import os, subprocess, tempfile, shutil, re as _re
    from mirsym.engine import PyMap, Agg, PyVec, Ref, mkstr
    W = e2.fresh_world(CRATES); tt = W.tt
    TY = tt.find_adt(['tast', 'Ty'], 'compiler'); SD = tt.find_adt(['env', 'StructDef'], 'compiler'); TI = tt.find_adt(['tast', 'TastIdent'], 'compiler')
    CE = tt.find_adt(['anf', 'CExpr'], 'compiler'); IE = tt.find_adt(['anf', 'ImmExpr'], 'compiler'); GE = tt.find_adt(['goast', 'Expr'], 'compiler')
    CO = tt.find_adt(['common', 'Constructor'], 'compiler'); SC = tt.find_adt(['common', 'StructConstructor'], 'compiler'); GOENV = tt.find_adt(['go', 'compile', 'GlobalGoEnv'], 'compiler')
    GI = tt.find_adt(['goast', 'Item'], 'compiler'); GST = [a for a in tt.by_name['Struct'] if a.crate == 'compiler' and 'goast' in '::'.join(a.path)][0]; GF = [a for a in tt.by_name['Field'] if a.crate == 'compiler' and 'goast' in '::'.join(a.path)][0]
    fields = ['x', 'range', 'type', 'default', 'map', 'func', 'go', 'len']
    r.bounds = 'a struct P with one int32 field named each of %s; the field read (compile_cexpr on EConstrGet), the struct literal (compile_cexpr on EConstr) and the declaration (gen_type_definition)' % fields
    r.assumptions = ['empty environments except the struct P', 'oracle: the three Go names of the field are equal, and equal go_ident(field) (whose legality is O19.1)']
    def ident(n): return Agg(TI.key, 0, [mkstr(n)])
    def entry(ex):
        fname = ex.choose([(True, f) for f in fields]); i32 = Agg(TY.key, TY.vindex('TInt32'), []); pty = Agg(TY.key, TY.vindex('TStruct'), [mkstr('P')])
        genv = ex.call('env::GlobalTypeEnv::new_empty', []); genv2 = ex.call('env::GlobalTypeEnv::new_empty', [])
        monoenv = ex.call('mono::GlobalMonoEnv::from_genv', [genv2]); hm = {0: monoenv}
        ex.call('mono::GlobalMonoEnv::insert_struct', [Ref(hm, 0), Agg(SD.key, 0, [ident('P'), PyVec([]), PyVec([Agg('tuple', 0, [ident(fname), i32])])])])
        liftenv = ex.call('lift::GlobalLiftEnv::from_monoenv', [hm[0]])
        h = {0: Agg(GOENV.key, 0, [genv, liftenv])}
        con = Agg(CO.key, CO.vindex('Struct'), [Agg(SC.key, 0, [ident('P')])])
        s_ = Agg(IE.key, IE.vindex('ImmVar'), [mkstr('s'), pty]); v_ = Agg(IE.key, IE.vindex('ImmVar'), [mkstr('v'), i32])
        C = lambda n, **kw: Agg(CE.key, CE.vindex(n), [kw[fl[0]] for fl in CE.variants[CE.vindex(n)].fields])
        rd = ex.call('go::compile::compile_cexpr', [Ref(h, 0), Ref({0: C('EConstrGet', expr=ms.mkbox(s_), constructor=con, field_index=0, ty=i32)}, 0)])
        lit = ex.call('go::compile::compile_cexpr', [Ref(h, 0), Ref({0: C('EConstr', constructor=con, args=PyVec([v_]), ty=pty)}, 0)])
        items = ex.call('go::compile::gen_type_definition', [Ref(h, 0)])
        gi = lambda v, adt, n: dict(zip([x[0] for x in adt.variants[v.idx].fields], v.fields))[n]
        read_name = ms.pystr(gi(rd, GE, 'field')) if GE.variants[rd.idx].name == 'FieldAccess' else '<%s>' % GE.variants[rd.idx].name
        lit_name = ms.pystr(gi(lit, GE, 'fields').items[0].fields[0]) if GE.variants[lit.idx].name == 'StructLiteral' else '<%s>' % GE.variants[lit.idx].name
        decl = None
        for it in items.items:
            if GI.variants[it.idx].name == 'Struct':
                st = it.fields[0]; sf = dict(zip([x[0] for x in GST.variants[0].fields], st.fields))
                if ms.pystr(sf['name']) == 'P': decl = ms.pystr(dict(zip([x[0] for x in GF.variants[0].fields], sf['fields'].items[0].fields))['name'])
        hh = {0: mkstr(fname)}
        gid = ms.pystr(ex.call('go::mangle::go_ident', [Ref(hh, 0)]))
        return fname, read_name, lit_name, decl, gid
    res = e2.explore(r, W, entry, [])
    bad = []
    for p in res:
        r.cases += 1
        if p.kind != 'ok': raise Unsupported('field name path panicked: %s' % p.value)
        fname, rd, lit, decl, gid = p.value
        r.nontrivial += 1
        if not (rd == lit == decl == gid): bad.append(p.value)
        elif len(r.samples) < 3: r.samples.append({'field': fname, 'go_name': gid})
    if bad:
        # replay with a field name that goml itself lexes as an identifier (`go`, `type` are goml keywords too)
        import json as _j
        rc, out, errt = build.run_driver('vreplay', '\n'.join(_j.dumps({'fn': 'lex', 'args': [b[0]]}) for b in bad) + '\n')
        lexable = [b for b, l in zip(bad, out.splitlines()) if [t[0] for t in _j.loads(l)['ok']] == ['Ident']]
        fname, rd, lit, decl, gid = (lexable or bad)[0]
        src = 'struct P { %s: int32 }\nfn get(s: P) -> int32 { s.%s }\nfn main() -> unit { string_println(int32_to_string(get(P { %s: 1 }))) }\n' % (fname, fname, fname)
        d = tempfile.mkdtemp(prefix='vf-c19-')
        try:
            open(os.path.join(d, 'main.gom'), 'w').write(src)
            out = subprocess.run([build.compiler_bin(), 'run', '--dump-go', os.path.join(d, 'main.gom')], capture_output=True, text=True, timeout=60).stdout
        finally: shutil.rmtree(d, ignore_errors=True)
        m_ = _re.search(r'= s__\d+\.(\w+)', out); dm = _re.search(r'type P struct \{\s*(\w+) ', out)
        ok_ = bool(m_ and dm and m_.group(1) != dm.group(1))
        r.findings.append(Finding('field-name-disagrees', 'field `%s` of struct P: declared as `%s`, initialised as `%s`, read as `%s` (go_ident gives `%s`); %d of %d field names affected' % (fname, decl, lit, rd, gid, len(bad), len(fields)), {'field': fname, 'all': [b[0] for b in bad]}, ok_,
                                  'goml `%s` declares `%s` and reads `.%s`' % (src.replace('\n', ' | '), dm.group(1) if dm else '?', m_.group(1) if m_ else '?')))

_c19_obl4 = obligations
def obligations():
    return _c19_obl4() + [Ob('O19.6-struct-field-names', 'declaration, literal and read of a struct field use one Go name', ob_field_names, ('quick', 'thorough'), 2, {})]

# ----------------------------------------------------------------------------- O19.7 enum variants get distinct Go struct names (among each other and against struct types)
def ob_variant_names(r, tier, seed):
    import os, subprocess, tempfile, shutil, re as _re, itertools
    from mirsym.engine import Agg, PyVec, Ref, mkstr
    W = e2.fresh_world(CRATES); tt = W.tt
    TY = tt.find_adt(['tast', 'Ty'], 'compiler'); ED = tt.find_adt(['env', 'EnumDef'], 'compiler'); SD = tt.find_adt(['env', 'StructDef'], 'compiler'); TI = tt.find_adt(['tast', 'TastIdent'], 'compiler')
    GOENV = tt.find_adt(['go', 'compile', 'GlobalGoEnv'], 'compiler')
    enames = ['Color', 'Paint::Color', 'Signal::Color', 'Shade']; vsets = [('Red', 'Green'), ('Red', 'Blue'), ('Blue',)]
    r.bounds = 'two enums with names drawn from %s (distinct) and variant sets from %s, variant_struct_name for every variant' % (enames, [list(v) for v in vsets])
    r.assumptions = ['environments hold only these definitions', 'oracle: the Go struct names of all variants are pairwise distinct']
    def ident(n): return Agg(TI.key, 0, [mkstr(n)])
    def entry(ex):
        e1 = ex.choose([(True, n) for n in enames]); e2_ = ex.choose([(True, n) for n in enames if n != e1])
        v1 = ex.choose([(True, v) for v in vsets]); v2 = ex.choose([(True, v) for v in vsets])
        with_struct = False      # a struct and a variant of one name cannot coexist in an accepted program (`Constructor Red refers to an enum`): not part of the obligation
        genv = ex.call('env::GlobalTypeEnv::new_empty', []); genv2 = ex.call('env::GlobalTypeEnv::new_empty', [])
        monoenv = ex.call('mono::GlobalMonoEnv::from_genv', [genv2]); hm = {0: monoenv}
        for en, vs in ((e1, v1), (e2_, v2)):
            ex.call('mono::GlobalMonoEnv::insert_enum', [Ref(hm, 0), Agg(ED.key, 0, [ident(en), PyVec([]), PyVec([Agg('tuple', 0, [ident(v), PyVec([])]) for v in vs])])])
        if with_struct: ex.call('mono::GlobalMonoEnv::insert_struct', [Ref(hm, 0), Agg(SD.key, 0, [ident('Red'), PyVec([]), PyVec([])])])
        liftenv = ex.call('lift::GlobalLiftEnv::from_monoenv', [hm[0]])
        h = {0: Agg(GOENV.key, 0, [genv, liftenv])}
        names = {}
        for en, vs in ((e1, v1), (e2_, v2)):
            for v in vs:
                hh = {0: mkstr(en), 1: mkstr(v)}
                names[(en, v)] = ms.pystr(ex.call('go::compile::variant_struct_name', [Ref(h, 0), Ref(hh, 0), Ref(hh, 1)]))
        if with_struct:
            hh = {0: mkstr('Red')}; names[('struct', 'Red')] = ms.pystr(ex.call('go::mangle::go_ident', [Ref(hh, 0)]))
        return names
    res = e2.explore(r, W, entry, [])
    found = {}
    for p in res:
        r.cases += 1
        if p.kind != 'ok': raise Unsupported('variant_struct_name panicked: %s' % p.value)
        names = p.value; r.nontrivial += 1
        inv = {}
        for k, v in names.items(): inv.setdefault(v, []).append(k)
        for goname, ks in inv.items():
            if len(ks) > 1:
                key = 'variant-vs-struct-name' if any(k[0] == 'struct' for k in ks) else ('variant-name-collision:same-short-enum-name' if len(set(k[0].split('::')[-1] for k in ks)) == 1 and len(set(k[0] for k in ks)) > 1 else 'variant-name-collision')
                found.setdefault(key, (goname, ks))
        if len(r.samples) < 2 and len(inv) == len(names): r.samples.append({'names': {'%s::%s' % k: v for k, v in names.items()}})
    for key, (goname, ks) in found.items():
        ok_, detail = True, 'names returned by the real variant_struct_name / go_ident MIR'
        if key == 'variant-vs-struct-name':
            src = 'struct Red { v: int32 }\nenum Color { Red, Green }\nfn f(c: Color) -> int32 { match c { Red => 1, Green => 2 } }\nfn main() -> unit { let r = Red { v: 1 }; string_println(int32_to_string(f(Green) + r.v)) }\n'
            d = tempfile.mkdtemp(prefix='vf-c19-')
            try:
                open(os.path.join(d, 'main.gom'), 'w').write(src)
                out = subprocess.run([build.compiler_bin(), 'run', '--dump-go', os.path.join(d, 'main.gom')], capture_output=True, text=True, timeout=60)
            finally: shutil.rmtree(d, ignore_errors=True)
            n_ = len(_re.findall(r'^type Red struct', out.stdout, _re.M)); ok_ = n_ > 1 or 'error' in out.stderr
            detail = 'goml `%s`: the Go text declares `type Red struct` %d times; stderr: %s' % (src.replace('\n', ' | '), n_, out.stderr[:120])
        r.findings.append(Finding(key, 'the Go name `%s` is given to %s' % (goname, ['%s of %s' % (k[1], k[0]) if k[0] != 'struct' else 'struct ' + k[1] for k in ks]), {'go_name': goname, 'entities': [list(k) for k in ks]}, ok_, detail))

_c19_obl5 = obligations
def obligations():
    return _c19_obl5() + [Ob('O19.7-variant-struct-names', 'enum variants get distinct Go struct names', ob_variant_names, ('quick', 'thorough'), 5, {})]

# ----------------------------------------------------------------------------- O19.8 the Go name compile_fn gives a function: only the entry point is renamed
def ob_fn_names(r, tier, seed, maxlen=6, alphabet='mainod:0'):
    from mirsym.engine import Agg, PyVec, Ref, Cell_, mkstr, mkbox
    W = e2.fresh_world(CRATES); tt = W.tt
    AFN = tt.find_adt(['anf', 'Fn'], 'compiler'); AE = tt.find_adt(['anf', 'AExpr'], 'compiler'); CE = tt.find_adt(['anf', 'CExpr'], 'compiler'); IE = tt.find_adt(['anf', 'ImmExpr'], 'compiler')
    TY = tt.find_adt(['tast', 'Ty'], 'compiler'); PR = tt.find_adt(['common', 'Prim'], 'compiler'); GFN = tt.find_adt(['goast', 'Fn'], 'compiler'); GOENV = tt.find_adt(['go', 'compile', 'GlobalGoEnv'], 'compiler')
    r.bounds = 'go::compile::compile_fn on a function `fn <name>() -> unit { () }` for every name of 1..%d characters over the alphabet %r (symbolic characters)' % (maxlen, alphabet)
    r.assumptions = ['oracle: the Go function is called main0 exactly when the source function is the entry point (`main`, or `<Package>::main`); every other function keeps go_ident(name), so that no ordinary function can share the entry point\'s Go name (the user-spelled `main0` itself is the known finding of O19.2)']
    def body():
        unit_ty = Agg(TY.key, TY.vindex('TUnit'), [])
        imm = Agg(IE.key, IE.vindex('ImmPrim'), [Agg(PR.key, PR.vindex('Unit'), [ms.UNIT]), unit_ty])
        return Agg(AE.key, AE.vindex('ACExpr'), [Agg(CE.key, CE.vindex('CImm'), [imm])]), unit_ty
    main0 = [ord(c) for c in 'main0']
    for n in range(1, maxlen + 1):
        cs = [z3.Int('n%d_%d' % (n, i)) for i in range(n)]; ass = [char_domain(c, alphabet) for c in cs]
        def entry(ex):
            b, unit_ty = body()
            fn = Agg(AFN.key, 0, [{'name': ms.Str(list(cs)), 'params': PyVec([]), 'ret_ty': unit_ty, 'body': b}[f[0]] for f in AFN.variants[0].fields])
            genv = ex.call('env::GlobalTypeEnv::new_empty', []); genv2 = ex.call('env::GlobalTypeEnv::new_empty', [])
            monoenv = ex.call('mono::GlobalMonoEnv::from_genv', [genv2]); liftenv = ex.call('lift::GlobalLiftEnv::from_monoenv', [monoenv])
            h2 = {0: Agg(GOENV.key, 0, [genv, liftenv]), 1: Agg('compiler::env::Gensym', 0, [Cell_(100)])}
            gfn = ex.call('go::compile::compile_fn', [Ref(h2, 0), Ref(h2, 1), fn])
            return dict(zip([x[0] for x in GFN.variants[0].fields], gfn.fields))['name']
        res = e2.explore(r, W, entry, ass)
        for p in res:
            r.cases += 1
            if p.kind != 'ok':
                if not any(f.key == 'panic' for f in r.findings): r.findings.append(Finding('panic', 'compile_fn panics on a function name: %s' % p.value, {}, False, 'not replayed'))
                continue
            out = p.value.chars
            is_main0 = ms.str_eq(out, main0); is_main0 = z3.BoolVal(bool(is_main0)) if isinstance(is_main0, bool) else ms.zi(is_main0)
            def ends(suffix):
                if len(cs) < len(suffix): return z3.BoolVal(False)
                return z3.And(*[c == ord(ch) for c, ch in zip(cs[len(cs) - len(suffix):], suffix)])
            entry_name = z3.Or(z3.And(*[c == ord(ch) for c, ch in zip(cs, 'main')]) if n == 4 else z3.BoolVal(False), ends('::main') if n > 6 else (ends('::main') if n == 6 else z3.BoolVal(False)))
            user_main0 = z3.And(*[c == ord(ch) for c, ch in zip(cs, 'main0')]) if n == 5 else z3.BoolVal(False)
            m, dt = e2.check(ass + p.pc + [is_main0 != entry_name, z3.Not(user_main0)]); r.queries += 1; r.solver_s += dt
            r.nontrivial += 1
            if m is not None:
                name = e2.concrete_str(m, cs)
                if any(f.key == 'ordinary-function-named-as-entry' for f in r.findings): continue
                import os, subprocess, tempfile, shutil
                ok_, detail = False, ''
                if all(ch.isalnum() for ch in name) and not name[0].isdigit():
                    src = 'fn %s() -> int32 { 1 }\nfn main() -> unit { string_println(int32_to_string(%s())) }\n' % (name, name)
                    d = tempfile.mkdtemp(prefix='vf-c19n-')
                    try:
                        open(os.path.join(d, 'main.gom'), 'w').write(src)
                        o = subprocess.run([build.compiler_bin(), 'run', '--dump-go', os.path.join(d, 'main.gom')], capture_output=True, text=True, timeout=60).stdout
                    finally: shutil.rmtree(d, ignore_errors=True)
                    ok_ = o.count('func main0()') >= 2 or ('func %s()' % name) not in o
                    detail = 'goml `%s`: the emitted Go declares `func main0()` %d times and `func %s()` %d times' % (src.replace('\n', ' | '), o.count('func main0()'), name, o.count('func %s()' % name))
                else: ok_, detail = True, 'name not spellable in goml source; Go name produced by the real compile_fn MIR'
                r.findings.append(Finding('ordinary-function-named-as-entry', 'the function `%s` is emitted under the Go name %r' % (name, ''.join(chr(m.eval(ms.zi(c), True).as_long()) if not isinstance(c, int) else chr(c) for c in out)), {'name': name}, ok_, detail))
        if n == 4: r.samples.append({'length': n, 'paths': len(res)})

_c19_obl8 = obligations
def obligations():
    return _c19_obl8() + [Ob('O19.8-function-go-names', 'only the entry point is renamed to main0; every other function keeps its own Go name', ob_fn_names, ('quick', 'thorough'), 5, {})]

# ----------------------------------------------------------------------------- O19.9 names of the trait-object machinery (same exploration as C17 O17.4)
def ob_dyn_names_c19(r, tier, seed):
    from props import c17
    c17.ob_dyn_names(r, tier, seed)

_c19_obl9 = obligations
def obligations():
    return _c19_obl9() + [Ob('O19.9-dyn-names', 'trait-object struct, vtable struct and vtable constructor use one Go name per entity, legal also for methods named like Go keywords (= C17 O17.4)', ob_dyn_names_c19, ('quick', 'thorough'), 2, {})]

"""C04 O4.5 - positions of parser diagnostics raised while loading the *other* files of a package: the error that load_package returns
is formatted by the entry points against the entry file's text (main.rs report_compilation_error -> parser::error::format_parser_diagnostics),
so every range it carries must lie inside that text."""
import json, os, subprocess, tempfile, shutil
import z3
from vlib import e2, build
from vlib.core import Ob, Finding
import mirsym as ms
from mirsym.engine import Agg, PyVec, Str, Ref, Opaque, Panic, Unsupported, mkstr, ok, err, some, NONE

CRATES = ('compiler', 'ast', 'common_defs', 'diagnostics', 'parser')

def ob_pkg_diag_positions(r, tier, seed, entry_len, other_len):
    W = e2.fresh_world(CRATES); tt = W.tt; W.opaque_int_format = True
    DI = tt.find_adt(['diagnostics', 'Diagnostics'], 'diagnostics'); DG = tt.find_adt(['diagnostics', 'Diagnostic'], 'diagnostics')
    ST = tt.find_adt(['diagnostics', 'Stage'], 'diagnostics'); SV = tt.find_adt(['diagnostics', 'Severity'], 'diagnostics')
    CE = tt.find_adt(['pipeline', 'pipeline', 'CompilationError'], 'compiler')
    AF = [a for a in tt.by_name['File'] if a.crate == 'ast'][0]
    s, e = z3.Int('s'), z3.Int('e')
    texts = {'main.gom': 'm' * entry_len, 'other.gom': 'o' * other_len}
    r.bounds = 'package directory with the entry file (%d characters) and one other file (%d characters) whose parse fails with a diagnostic at an arbitrary range 0 <= s <= e <= %d of its own text (solver variables)' % (entry_len, other_len, other_len)
    r.assumptions = ['read_gom_sources / fs::read_to_string replaced by an environment returning the two files; parse_ast_file replaced by a stub returning Err(Parser{diagnostic with the symbolic range}) for the other file (ranges inside the parsed text: obligation O12.4)',
                     'the consumer is the one of the CLI entry points: parser::error::format_parser_diagnostics(diagnostics, <text of the entry file>) (compiler/src/main.rs execute_run -> report_compilation_error, read by inspection; the bin crate has no MIR dump); line_index::LineIndex modelled: line_col panics with "invalid offset" beyond the text']
    def path(name): return Opaque('path', name=name)
    def stub_sources(ex, a): return ok(PyVec([path('main.gom'), path('other.gom')]))
    def stub_parse(ex, a):
        p = ex.deref(a[0]); name = getattr(p, 'name', None)
        if name != 'other.gom': raise Unsupported('parse_ast_file on %r' % (p,))
        d = Agg(DG.key, 0, [None] * len(DG.variants[0].fields))
        for i, (fn_, _t) in enumerate(DG.variants[0].fields):
            d.fields[i] = {'stage': Agg(ST.key, ST.vindex('Parser'), []), 'severity': Agg(SV.key, SV.vindex('Error'), []), 'message': mkstr('expected a function'),
                           'range': some(Agg('TextRange', 0, [s, e]))}[fn_]
        return err(Agg(CE.key, CE.vindex('Parser'), [Agg(DI.key, 0, [PyVec([d])])]))
    W.stubs['read_gom_sources'] = stub_sources
    W.stubs['parse_ast_file'] = stub_parse
    def ov(f, g):
        if g.endswith('fs::read_to_string') or 'fs::read_to_string::<' in g:
            def m_read(ex, f_, a): return ok(mkstr(texts[ex.deref(a[0]).name]))
            return m_read
        if g.endswith('LineIndex::new'):
            def m_li_new(ex, f_, a): return Opaque('LineIndex', n=len(ex.deref(a[0]).chars))
            return m_li_new
        if g.endswith('LineIndex::line_col'):
            def m_li_line_col(ex, f_, a):
                li = ex.deref(a[0]); off = a[1]
                while isinstance(off, Agg): off = off.fields[0]
                if ex.branch_bool(ms.zi(off) > li.n): raise Panic('invalid offset (line_index): offset beyond the %d characters of the text' % li.n)
                ln, cl = ex.fresh_int('line'), ex.fresh_int('col'); ex.assume(z3.And(ln >= 0, ln <= li.n, cl >= 0, cl <= li.n))
                return Agg('LineCol', 0, [ln, cl])
            return m_li_line_col
        if 'Path' in g and (g.endswith('::eq') or g.endswith('::ne')):
            def m_path_eq(ex, f_, a):
                x, y = ex.deref(a[0]), ex.deref(a[1])
                while isinstance(x, Ref): x = x.get()
                while isinstance(y, Ref): y = y.get()
                r_ = x.name == y.name; return r_ if g.endswith('eq') else not r_
            return m_path_eq
        return None
    W.overrides = [ov]
    def entry(ex):
        ex.assume(z3.And(s >= 0, s <= e, e <= other_len))
        fields = []
        for fn_, _t in AF.variants[0].fields:
            fields.append({'package': None}.get(fn_, PyVec([])))
        # ast::File { package: AstIdent("Main"), .. }
        pk = [i for i, (fn_, _t) in enumerate(AF.variants[0].fields) if fn_ == 'package'][0]
        AI = [a for a in tt.by_name['AstIdent'] if a.crate == 'ast'][0]
        fields[pk] = Agg(AI.key, 0, [mkstr('Main')])
        h = {0: path('dir'), 1: path('main.gom')}
        res = ex.call('load_package', [Ref(h, 0), some(Ref(h, 1)), some(Agg(AF.key, 0, fields))], 'compiler')
        if res.idx == 0: return 'ok'
        ce = res.fields[0]
        if CE.variants[ce.idx].name != 'Parser': return 'err-' + CE.variants[ce.idx].name
        h2 = {0: ce.fields[0], 1: mkstr(texts['main.gom'])}
        out = ex.call('error::format_parser_diagnostics', [Ref(h2, 0), Ref(h2, 1)], 'parser')
        return 'formatted', len(out.items)
    res = e2.explore(r, W, entry, [])
    for p in res:
        r.cases += 1
        if p.kind == 'ok': r.nontrivial += 1; continue
        if any(f.key == 'diagnostic-against-wrong-text' for f in r.findings): continue
        m, _ = e2.check(p.pc); sv, ev = e2.mval(m, s), e2.mval(m, e)
        ok_, detail = replay_cli(entry_len, other_len, sv)
        r.findings.append(Finding('diagnostic-against-wrong-text', 'a parse error at offset %d..%d of a sibling file (%d characters) is returned by load_package with its bare range and formatted against the entry file (%d characters): %s' % (sv, ev, other_len, entry_len, p.value[:160]),
                                  {'entry_len': entry_len, 'other_len': other_len, 'range': [sv, ev]}, ok_, detail))

def replay_cli(entry_len, other_len, off):
    """real CLI: entry file of entry_len bytes, sibling file of other_len bytes with a parse error at byte `off`"""
    d = tempfile.mkdtemp(prefix='vf-c04pkg-')
    try:
        main = 'fn main() -> unit { () }'; main += ' ' * max(0, entry_len - len(main) - 1) + '\n'
        bad = ')'
        other = ' ' * off + bad; other += ' ' * max(0, other_len - len(other) - 1) + '\n'
        open(os.path.join(d, 'main.gom'), 'w').write(main); open(os.path.join(d, 'other.gom'), 'w').write(other)
        p = subprocess.run([build.compiler_bin(), 'run', '--dump-go', os.path.join(d, 'main.gom')], capture_output=True, text=True, timeout=60)
        txt = p.stdout + p.stderr
        if 'panicked' in txt: return True, 'CLI `run` on a directory with main.gom (%d bytes) and other.gom (`)` at byte %d): exit %d, %s' % (len(main), off, p.returncode, [l for l in txt.splitlines() if 'panicked' in l or 'invalid' in l][:2])
        wrong = [l for l in txt.splitlines() if l.startswith('error') and 'main.gom' in l and 'other.gom' not in l]
        return bool(wrong), 'CLI output: %s' % txt.splitlines()[:3]
    finally: shutil.rmtree(d, ignore_errors=True)

def obligations():
    return [Ob('O4.5-pkg-diag-positions', 'ranges of diagnostics from sibling package files vs the text they are formatted against', ob_pkg_diag_positions, ('quick', 'thorough'), 2, dict(entry_len=26, other_len=60)),
            Ob('O4.5-pkg-diag-positions-long-entry', 'same, entry file longer than the sibling', ob_pkg_diag_positions, ('thorough',), 2, dict(entry_len=60, other_len=26))]

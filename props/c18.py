"""C18 - facets decided on the real derive::expand: for every struct / enum definition within the bound the generated to_json / to_string
method (1) has the documented template (an object per struct with one member per field, in order; `tag` and `fields` per variant;
`Name { f: v }` / `Enum::Variant(v)`), checked by evaluating the generated AST with a reference evaluator and parsing the result with a JSON
parser, (2) converts every scalar field with a function or method that exists for that type in the builtin environment (table read from
builtin.gom and from the real builtins::builtin_inherent_methods), and (3) is hygienic: no helper the expansion calls by name is captured by
a binder the expansion introduces (field names that coincide with generated identifiers)."""
import os, re, json, subprocess, tempfile, shutil
import z3
from vlib import e2, build
from vlib.core import Ob, Finding
import mirsym as ms
from mirsym.lazy import Spec
from mirsym.engine import Agg, PyVec, Str, Opaque, LazyEnum, Unsupported, unbox, mkbox, mkstr

CRATES = ('compiler', 'ast', 'common_defs', 'diagnostics')
SCALARS = {'TUnit': 'unit', 'TBool': 'bool', 'TInt8': 'int8', 'TInt16': 'int16', 'TInt32': 'int32', 'TInt64': 'int64', 'TUint8': 'uint8', 'TUint16': 'uint16',
           'TUint32': 'uint32', 'TUint64': 'uint64', 'TFloat32': 'float32', 'TFloat64': 'float64', 'TString': 'string'}
GOML_VALUE = {'unit': '()', 'bool': 'true', 'string': '"s"', 'float32': '1.5f32', 'float64': '1.5'}

def builtin_functions():
    """extern functions of the builtin package: name -> (parameter types, result type), read from builtin.gom of the tree under check"""
    txt = open(os.path.join(build.REPO, 'crates/compiler/src/builtin.gom')).read(); out = {}
    for m in re.finditer(r'extern\s+fn\s+(\w+)\s*\(([^)]*)\)\s*(?:->\s*([\w\[\]]+))?', txt):
        ps = [p.split(':')[1].strip() for p in m.group(2).split(',') if ':' in p]
        out[m.group(1)] = (ps, m.group(3) or 'unit')
    return out

def ident_of(v):
    return ms.pystr(v.fields[0])

class Eval:
    """reference evaluator for the expression subset derive::expand generates: returns a list of pieces, each a literal string or a
    conversion ('call', f, binder) / ('method', m, binder) / ('var', binder); a binder is ('field', i) or ('self',)"""
    def __init__(s, EX, PT, PA):
        s.EX, s.PT, s.PA = EX, PT, PA; s.captured = []
    def f(s, e):
        if isinstance(e, Agg) and e.ty == 'Box': e = unbox(e)
        n = s.EX.variants[e.idx].name; return n, dict(zip([x[0] for x in s.EX.variants[e.idx].fields], e.fields))
    def path1(s, p):
        segs = [ident_of(seg.fields[0]) if isinstance(seg, Agg) and not isinstance(seg.fields[0], Str) else ms.pystr(seg.fields[0]) for seg in p.fields[0].items]
        return segs
    def value(s, e, env):
        n, f = s.f(e)
        if n == 'EPath':
            segs = s.path1(f['path'])
            if len(segs) == 1 and segs[0] in env: return env[segs[0]]
            raise Unsupported('reference evaluator: free variable %s' % '::'.join(segs))
        raise Unsupported('reference evaluator: value form ' + n)
    def pieces(s, e, env):
        n, f = s.f(e)
        if n == 'EString': return [ms.pystr(f['value'])]
        if n == 'EBinary': return s.pieces(f['lhs'], env) + s.pieces(f['rhs'], env)
        if n == 'EPath': return [('var', s.value(e, env))]
        if n == 'ECall':
            fn_n, fn_f = s.f(f['func']); args = f['args'].items
            if fn_n == 'EField' and not args:
                return [('method', ident_of(fn_f['field']), s.value(fn_f['expr'], env))]
            if fn_n == 'EPath' and len(args) == 1:
                segs = s.path1(fn_f['path'])
                if len(segs) == 1:
                    if segs[0] in env: s.captured.append((segs[0], env[segs[0]]))
                    return [('call', segs[0], s.value(args[0], env))]
            raise Unsupported('reference evaluator: call form')
        raise Unsupported('reference evaluator: expression form ' + n)

def conversions_ok(piece, tyname, target, funcs, methods):
    """is the conversion applied to a scalar field of goml type `tyname` available in the builtin environment, and the right one for the target?"""
    if piece[0] == 'var': return tyname == 'string' and target == 'ToString', 'the value itself'
    if isinstance(piece, str): return (target == 'ToJson' and tyname == 'unit' and piece == 'null'), 'the literal %r' % piece
    if piece[0] == 'call':
        sig = funcs.get(piece[1])
        if sig is None: return False, 'call of %s, which is not a builtin function' % piece[1]
        if sig[0] != [tyname] or sig[1] != 'string': return False, 'call of %s%s -> %s' % (piece[1], tuple(sig[0]), sig[1])
        if target == 'ToJson' and tyname == 'unit': return False, 'call of %s on a unit member (the runtime prints `()`, which is not a JSON value; a unit member is the literal null)' % piece[1]
        if target == 'ToJson' and tyname == 'string' and piece[1] != 'json_escape_string': return False, 'a string member that is not escaped (%s)' % piece[1]
        if target == 'ToJson' and tyname == 'bool' and piece[1] not in ('bool_to_json', 'bool_to_string'): return False, 'a bool member printed with %s' % piece[1]
        return True, 'call of ' + piece[1]
    if piece[0] == 'method':
        if (tyname, piece[1]) not in methods: return False, 'method call .%s() on a value of type %s, which has no such method' % (piece[1], tyname)
        if target == 'ToJson' and tyname in ('string', 'bool', 'unit'): return False, '.%s() on a %s member' % (piece[1], tyname)
        return True, 'method ' + piece[1]
    return False, str(piece)

def goml_def(kind, target, names, tynames, payloads=None):
    if kind == 'struct':
        return '#[derive(%s)]\nstruct S { %s }\n' % (target, ', '.join('%s: %s' % (n, t) for n, t in zip(names, tynames)))
    return '#[derive(%s)]\nenum E { %s }\n' % (target, ', '.join(v + ('(%s)' % ', '.join(ts) if ts else '') for v, ts in payloads))

def goml_value(t):
    if t in GOML_VALUE: return GOML_VALUE[t]
    if t.startswith('uint'): return '1u' + t[4:]
    if t.startswith('int') and t != 'int32': return '1i' + t[3:]
    return '1'

def cli(src, dump='--dump-ast'):
    d = tempfile.mkdtemp(prefix='vf-c18-')
    try:
        open(os.path.join(d, 'main.gom'), 'w').write(src)
        p = subprocess.run([build.compiler_bin(), 'run', dump, os.path.join(d, 'main.gom')], capture_output=True, text=True, timeout=60)
    finally: shutil.rmtree(d, ignore_errors=True)
    return p.stdout + p.stderr

def native_pieces(out, method):
    """the `+`-separated pieces of the last expression of the generated method in the --dump-ast text (struct case) or of every arm (enum)"""
    m = re.search(r'fn %s\(self: \w+\) -> string \{\n(.*?)\n  \}' % method, out, re.S)
    if not m: return None
    return m.group(1)

def split_plus(expr):
    parts, cur, q, esc = [], '', False, False
    i = 0
    while i < len(expr):
        c = expr[i]
        if q:
            cur += c
            if esc: esc = False
            elif c == '\\': esc = True
            elif c == '"': q = False
        elif c == '"': q = True; cur += c
        elif expr.startswith(' + ', i): parts.append(cur.strip()); cur = ''; i += 3; continue
        else: cur += c
        i += 1
    if cur.strip(): parts.append(cur.strip())
    return parts

def _norm(x):
    """JSON value read with object_pairs_hook=list: null (a unit member) counts as a member value"""
    if isinstance(x, tuple): return (x[0], _norm(x[1]))
    if isinstance(x, list): return [_norm(y) for y in x]
    return 0 if x is None else x

STRUCTURAL = {'TTuple': '(int32, int32)', 'TArray': '[int32; 2]', 'TFunc': '(int32) -> int32', 'TDyn': 'dyn Tr'}
def replay_structural(target, cons):
    src = 'trait Tr { fn m(Self) -> unit; }\n#[derive(%s)]\nstruct S { f: %s }\nfn main() -> unit { string_println("a") }\n' % (target, STRUCTURAL[cons])
    out = cli(src); errs = [l for l in out.splitlines() if l.startswith('error')]
    ok_ = bool(errs) and not any('`#[derive(' in l for l in errs)
    return ok_, 'goml `%s`: %s' % (src.replace('\n', ' | '), ('rejected after derive, inside the generated code: ' + errs[0][:160]) if ok_ else ('rejected by derive itself: ' + errs[0][:160] if errs else 'accepted'))

def replay(kind, target, names, tynames, payloads, key):
    """compile a program with the definition through the real CLI; the finding reproduces iff (conversion / capture classes) the compiler rejects it in a
    stage after derive, or (template classes) the generated method printed by --dump-ast does not have the documented template"""
    meth = 'to_json' if target == 'ToJson' else 'to_string'
    if kind == 'struct':
        src = goml_def(kind, target, names, tynames) + 'fn main() -> unit { let s = S { %s }; string_println(s.%s()) }\n' % (', '.join('%s: %s' % (n, goml_value(t)) for n, t in zip(names, tynames)), meth)
    else:
        v, ts = payloads[-1]
        src = goml_def(kind, target, None, None, payloads) + 'fn main() -> unit { let s = E::%s%s; string_println(s.%s()) }\n' % (v, '(%s)' % ', '.join(goml_value(t) for t in ts) if ts else '', meth)
    out = cli(src)
    show = src.replace('\n', ' | ')
    if key in ('conversion-missing', 'helper-captured'):
        stages = re.findall(r'error \((\w+)\)', out)
        ok_ = bool(stages) and all(s_ != 'derive' for s_ in stages) and '`#[derive(' not in out       # the CLI prints derive's own diagnostics under the stage of the caller: recognise them by their text
        return ok_, 'goml `%s`: %s' % (show, ('rejected after derive: ' + out.strip().split('\n')[0][:160]) if ok_ else 'accepted or rejected by derive itself: ' + out.strip()[:120])
    if key == 'conversion-not-json':
        body = native_pieces(out, meth)
        ok_ = body is not None and 'unit_to_string(' in body
        return ok_, 'goml `%s`: the generated %s %s' % (show, meth, ('prints the unit member with unit_to_string: ' + ' '.join(body.split())[:200]) if ok_ else 'does not call unit_to_string')
    body = native_pieces(out, meth)
    if body is None: return False, 'goml `%s`: no generated method in --dump-ast: %s' % (show, out.strip()[:160])
    if kind == 'struct':
        last = [l for l in body.split('\n') if l.strip()][-1].strip().rstrip(';')
        parts = split_plus(last); text = ''
        for p_ in parts: text += json.loads(p_) if p_.startswith('"') else '0'
        if target == 'ToJson':
            try: val = json.loads(text, object_pairs_hook=list)
            except Exception: val = None
            want = [(n, 0) for n in names]
            ok_ = _norm(val) != want
        else:
            ok_ = text != ('S { %s }' % ', '.join('%s: 0' % n for n in names) if names else 'S {}')
        return ok_, 'goml `%s`: generated body `%s` evaluates (members as 0) to %r' % (show, last[:200], text[:160])
    arms = []
    for l in body.split('\n'):
        m = re.match(r'\s*(E::\w+)(?:\(([^)]*)\))? => (.*?),?\s*$', l)
        if m: arms.append((m.group(1), len([x for x in (m.group(2) or '').split(',') if x.strip()]), m.group(3)))
    bad = None
    if [(a[0], a[1]) for a in arms] != [('E::' + v, len(ts)) for v, ts in payloads]: bad = 'arms %s' % [(a[0], a[1]) for a in arms]
    for (cons, n_, ex_), (v, ts) in zip(arms, payloads):
        text = ''.join(json.loads(p_) if p_.startswith('"') else '0' for p_ in split_plus(ex_))
        if target == 'ToJson':
            try: val = json.loads(text, object_pairs_hook=list)
            except Exception: val = None
            if _norm(val) != [('tag', v)] + ([('fields', [0] * len(ts))] if ts else []): bad = bad or 'variant %s evaluates (members as 0) to %r' % (v, text[:120])
        elif text != 'E::%s' % v + ('(%s)' % ', '.join(['0'] * len(ts)) if ts else ''): bad = bad or 'variant %s evaluates (members as 0) to %r' % (v, text[:120])
    return bad is not None, 'goml `%s`: %s' % (show, bad or 'the generated method printed by --dump-ast has the documented template')

def ob_derive(r, tier, seed, kind, target, nfields, name_sets, ty_allowed=None, variants=None):
    W = e2.fresh_world(CRATES); tt = W.tt
    EX = tt.find_adt(['ast', 'Expr'], 'ast'); PT = tt.find_adt(['ast', 'Pat'], 'ast'); PA = tt.find_adt(['ast', 'Path'], 'ast'); TE = tt.find_adt(['ast', 'TypeExpr'], 'ast')
    AI = tt.find_adt(['ast', 'AstIdent'], 'ast'); IT = tt.find_adt(['ast', 'Item'], 'ast'); FI = tt.find_adt(['ast', 'File'], 'ast'); AT = tt.find_adt(['ast', 'Attribute'], 'ast')
    SD = tt.find_adt(['ast', 'StructDef'], 'ast'); ED = tt.find_adt(['ast', 'EnumDef'], 'ast'); IB = tt.find_adt(['ast', 'ImplBlock'], 'ast'); FN = tt.find_adt(['ast', 'Fn'], 'ast')
    funcs = builtin_functions()
    if 'json_escape_string' not in funcs or 'bool_to_json' not in funcs: raise Unsupported('builtin.gom: helper functions not found')
    tynames = ty_allowed or TE.vnames()
    r.bounds = '%s definition with #[derive(%s)]: %s; field / payload types: every ast::TypeExpr constructor %s (composite ones with int32 components), chosen by the solver per switch target; field names from %s' % (
        kind, target, ('%d field(s)' % nfields) if kind == 'struct' else 'variants with payload sizes %s' % (variants,), '' if ty_allowed is None else 'in %s' % (ty_allowed,), [list(x) for x in name_sets])
    r.assumptions = ['oracle (template): evaluating the generated method with a reference evaluator, members replaced by the JSON value 0, gives text that a JSON parser reads as the object {field: 0, ...} in declaration order (struct) or {"tag": V, "fields": [0, ...]} / {"tag": V} (enum); to_string gives `Name { f: 0, .. }` / `E::V(0, ..)`',
                     'oracle (conversion): a field of a scalar type is converted by a builtin function of signature (that type) -> string declared in builtin.gom or by a method registered for that type by builtins::builtin_inherent_methods (executed from its MIR); strings are escaped with json_escape_string and bools printed with bool_to_json under ToJson',
                     'oracle (hygiene): a helper called by name is not a variable bound by the generated pattern',
                     'a member of a tuple / array / function / dyn type must be rejected by derive itself (no method can exist for such a type: inherent impls on them are not allowed - confirmed through the CLI); user-defined and applied types are only required to be converted by a .to_json() / .to_string() method call: whether such a method exists depends on the rest of the program (outside)']
    ident = lambda n: Agg(AI.key, 0, [mkstr(n)])
    int32 = Agg(TE.key, TE.vindex('TInt32'), [])
    spec = Spec(tt, crate='ast', allowed={'TypeExpr': tynames}, leaves={'TypeExpr': ['TInt32']}, strings=('T',), vec_len=(1, 1), int_choices=[2], depth=1,
                overrides={'MySyntaxNodePtr': lambda *a: Opaque('astptr', n=0), 'Path': lambda sp, ex, tyj, depth, path: ex.call('ast::Path::from_ident', [ident('T')])})
    # methods available on builtin scalar types: run the real table builder once, concretely
    def inherent(ex):
        m = ex.call('builtins::builtin_inherent_methods', [])
        TY = tt.find_adt(['tast', 'Ty'], 'compiler'); out = []
        for k, v in zip(m.keys, m.vals):
            if k.idx != 0: raise Unsupported('inherent impl key that is not Exact(type)')
            out.append((TY.variants[k.fields[0].idx].name, v))
        return out
    W0 = e2.fresh_world(CRATES)
    res0 = e2.explore(r, W0, inherent, [])
    if len(res0) != 1 or res0[0].kind != 'ok': raise Unsupported('builtin_inherent_methods: %s' % (res0[0].value if res0 else 'no path'))
    IMPL = tt.find_adt(['env', 'ImplDef'], 'compiler'); mi = [x[0] for x in IMPL.variants[0].fields].index('methods')
    methods = set()
    for tn, v in res0[0].value:
        if tn not in SCALARS: continue
        for k in v.fields[mi].keys: methods.add((SCALARS[tn], ms.pystr(k)))
    r.notes.append('builtin scalar methods (from builtins::builtin_inherent_methods): %s' % sorted(methods))
    meth = 'to_json' if target == 'ToJson' else 'to_string'

    def entry(ex):
        names = ex.choose([(True, ns) for ns in name_sets]) if len(name_sets) > 1 else name_sets[0]
        attr = Agg(AT.key, 0, [{'ast': Opaque('astptr', n=1), 'text': mkstr('#[derive(%s)]' % target)}[f[0]] for f in AT.variants[0].fields])
        if kind == 'struct':
            tys = [spec.root(ex, 'ast::TypeExpr', tag='t%d' % i) for i in range(nfields)]
            d = Agg(SD.key, 0, [{'attrs': PyVec([attr]), 'name': ident('S'), 'generics': PyVec([]), 'fields': PyVec([Agg('tuple', 0, [ident(n), t]) for n, t in zip(names, tys)])}[f[0]] for f in SD.variants[0].fields])
            item = Agg(IT.key, IT.vindex('StructDef'), [d]); shape = None
        else:
            shape = ex.choose([(True, v_) for v_ in variants]) if len(variants) > 1 else variants[0]
            tys = [[spec.root(ex, 'ast::TypeExpr', tag='v%dp%d' % (i, j)) for j in range(k)] for i, k in enumerate(shape)]
            d = Agg(ED.key, 0, [{'attrs': PyVec([attr]), 'name': ident('E'), 'generics': PyVec([]), 'variants': PyVec([Agg('tuple', 0, [ident(names[i]), PyVec(ts)]) for i, ts in enumerate(tys)])}[f[0]] for f in ED.variants[0].fields])
            item = Agg(IT.key, IT.vindex('EnumDef'), [d])
        file = Agg(FI.key, 0, [{'package': ident('Main'), 'imports': PyVec([]), 'toplevels': PyVec([item])}[f[0]] for f in FI.variants[0].fields])
        out = ex.call('derive::expand', [file])
        # feasible constructors of each type on this path
        def dom(t):
            if isinstance(t, Agg): return [TE.variants[t.idx].name]
            cur = ex.dom.get(t.d.get_id()); allv = [TE.vindex(n) for n in tynames]
            if cur is None: return [TE.variants[i].name for i in allv]
            return [TE.variants[i].name for i in allv if (i in cur[2]) == (cur[1] == 'in')]
        doms = [dom(t) for t in tys] if kind == 'struct' else [[dom(t) for t in ts] for ts in tys]
        if out.idx != 0: return ('rejected', names, doms, shape, None)
        tops = out.fields[0].fields[[f[0] for f in FI.variants[0].fields].index('toplevels')].items
        impls = [t for t in tops if IT.variants[t.idx].name == 'ImplBlock']
        if len(tops) != 2 or len(impls) != 1: return ('shape', names, doms, shape, 'expand returned %d items, %d impl blocks' % (len(tops), len(impls)))
        ib = impls[0].fields[0]; ibf = dict(zip([f[0] for f in IB.variants[0].fields], ib.fields))
        if len(ibf['methods'].items) != 1: return ('shape', names, doms, shape, 'impl block with %d methods' % len(ibf['methods'].items))
        fn = ibf['methods'].items[0]; fnf = dict(zip([f[0] for f in FN.variants[0].fields], fn.fields))
        sig_ok = ident_of(fnf['name']) == meth and len(fnf['params'].items) == 1 and ident_of(fnf['params'].items[0].fields[0]) == 'self' and TE.variants[ibf['for_type'].idx].name == 'TCon' and ibf['trait_name'].idx == 0
        if not sig_ok: return ('shape', names, doms, shape, 'method is not `fn %s(self: %s) -> string` in an inherent impl' % (meth, 'S' if kind == 'struct' else 'E'))
        ev = Eval(EX, PT, PA); body = fnf['body']
        if kind == 'struct':
            n, f = ev.f(body)
            if n == 'EString': return ('struct', names, doms, shape, ([ms.pystr(f['value'])], []))
            if n != 'EBlock' or len(f['exprs'].items) != 2: raise Unsupported('generated struct body form ' + n)
            ln, lf = ev.f(f['exprs'].items[0])
            if ln != 'ELet': raise Unsupported('generated struct body: first statement ' + ln)
            pat = lf['pat']; pn = PT.variants[pat.idx].name
            if pn != 'PStruct' or ev.value(lf['value'], {'self': ('self',)}) != ('self',): raise Unsupported('generated struct pattern ' + pn)
            pf = dict(zip([x[0] for x in PT.variants[pat.idx].fields], pat.fields)); env = {'self': ('self',)}
            for fp in pf['fields'].items:
                fname = ident_of(fp.fields[0]); sub = fp.fields[1]
                if PT.variants[sub.idx].name != 'PVar': raise Unsupported('generated sub-pattern')
                if fname not in names: return ('shape', names, doms, shape, 'pattern names a field `%s` the struct does not have' % fname)
                env[ident_of(dict(zip([x[0] for x in PT.variants[sub.idx].fields], sub.fields))['name'])] = ('field', list(names).index(fname))
            pieces = ev.pieces(f['exprs'].items[1], env)
            return ('struct', names, doms, shape, (pieces, ev.captured))
        n, f = ev.f(body)
        if n != 'EMatch' or ev.value(f['expr'], {'self': ('self',)}) != ('self',): raise Unsupported('generated enum body form ' + n)
        arms = []
        for arm in f['arms'].items:
            pat, abody = arm.fields[0], arm.fields[1]
            if PT.variants[pat.idx].name != 'PConstr': raise Unsupported('generated arm pattern')
            pf = dict(zip([x[0] for x in PT.variants[pat.idx].fields], pat.fields)); env = {'self': ('self',)}
            cons = ev.path1(pf['constructor'])
            for j, a in enumerate(pf['args'].items):
                if PT.variants[a.idx].name != 'PVar': raise Unsupported('generated arm sub-pattern')
                env[ident_of(dict(zip([x[0] for x in PT.variants[a.idx].fields], a.fields))['name'])] = ('field', j)
            ev.captured = []
            arms.append((cons, len(pf['args'].items), ev.pieces(abody, env), ev.captured))
        return ('enum', names, doms, shape, arms)

    res = e2.explore(r, W, entry, [])
    def add(key, what, wit, rp):
        if any(f.key == key for f in r.findings): return
        try: ok_, detail = replay(*rp, key)
        except Exception as e_: ok_, detail = False, 'replay failed: %s' % str(e_)[:200]
        r.findings.append(Finding(key, what, wit, ok_, detail))
    for p in res:
        r.cases += 1
        if p.kind != 'ok':
            add('panic', 'derive::expand panics: %s' % str(p.value)[:200], {}, ('struct', target, ['a'], ['int32'], None)); continue
        k, names, doms, shape, val = p.value
        pick = lambda dm: next((c for c in dm if c in SCALARS), dm[0])
        if k == 'rejected':
            # within the bound every definition is non-generic: a scalar-only definition must be accepted
            flat = doms if kind == 'struct' else [d_ for ds in doms for d_ in ds]
            if all(any(c in SCALARS for c in d_) for d_ in flat):
                tn = [SCALARS[pick(d_)] for d_ in flat]
                add('scalar-definition-rejected', 'derive(%s) rejects a non-generic %s whose fields are scalars (%s)' % (target, kind, tn), {'types': tn}, (kind, target, list(names), tn, None))
            continue
        if k == 'shape':
            add('wrong-shape', 'derive(%s) on a %s: %s' % (target, kind, val), {'names': list(names)}, (kind, target, list(names), ['int32'] * len(names), None)); continue
        r.nontrivial += 1
        units = [(list(names), doms, val[0], val[1], None)] if k == 'struct' else None
        if k == 'enum':
            if [a[0] for a in val] != [['E', names[i]] for i in range(len(shape))] or [a[1] for a in val] != list(shape):
                pl = [(names[i], ['int32'] * n_) for i, n_ in enumerate(shape)]
                add('wrong-arms', 'derive(%s) on enum E with variants %s: the generated match has the arms %s' % (target, [(names[i], n_) for i, n_ in enumerate(shape)], [('::'.join(a[0]), a[1]) for a in val]), {'shape': list(shape)}, ('enum', target, list(names), None, pl)); continue
            units = [(None, doms[i], a[2], a[3], names[i]) for i, a in enumerate(val)]
        for ui, (fnames, fdoms, pieces, captured, vname) in enumerate(units):
            text = ''; members = []
            for p_ in pieces:
                if isinstance(p_, str): text += p_
                else: text += '0'; members.append(p_)
            def rp_with(tn_list):
                if k == 'struct': return ('struct', target, fnames, tn_list, None)
                pl = [(names[i], ['int32'] * n_) for i, n_ in enumerate(shape)]; pl[ui] = (vname, tn_list); pl = pl[:ui] + pl[ui + 1:] + [pl[ui]]
                return ('enum', target, list(names), None, pl)
            default_t = [SCALARS.get(pick(d_), 'int32') for d_ in fdoms]
            # ---- template
            n_m = len(fdoms)
            if target == 'ToJson':
                try: got = json.loads(text, object_pairs_hook=lambda kv: ('obj', kv))
                except Exception: got = None
                if k == 'struct': want = ('obj', [(n_, 0) for n_ in fnames])
                else: want = ('obj', [('tag', vname)] + ([('fields', [0] * n_m)] if n_m else []))
                # a unit member is the literal null
                norm = lambda x: ('obj', [(a_, norm(b_)) for a_, b_ in x[1]]) if isinstance(x, tuple) else ([norm(y) for y in x] if isinstance(x, list) else (0 if x is None else x))
                if got is None or norm(got) != want:
                    add('wrong-template', 'derive(ToJson) on %s: the generated method evaluates (members as 0) to %r, which is not the JSON %s' % ('struct S {%s}' % ', '.join(fnames) if k == 'struct' else 'variant E::%s/%d' % (vname, n_m), text[:200], 'object with the members %s in order' % fnames if k == 'struct' else '{"tag": .., "fields": [..]}'), {'text': text[:200]}, rp_with(default_t)); continue
            else:
                if k == 'struct': want_t = 'S { %s }' % ', '.join('%s: 0' % n_ for n_ in fnames) if fnames else 'S {}'
                else: want_t = 'E::%s' % vname + ('(%s)' % ', '.join(['0'] * n_m) if n_m else '')
                if text != want_t:
                    add('wrong-template', 'derive(ToString): the generated method evaluates (members as 0) to %r, expected %r' % (text[:200], want_t), {'text': text[:200]}, rp_with(default_t)); continue
            # ---- members: the i-th converted piece must convert field i (null literals of unit members are not pieces)
            conv = [p_ for p_ in pieces if not isinstance(p_, str)]
            idxs = [c_[-1][1] if c_[-1][0] == 'field' else None for c_ in conv]
            for c_ in conv:
                b = c_[-1]
                if b[0] != 'field': add('wrong-member', 'a member converts `self` instead of a field', {}, rp_with(default_t)); continue
                fi = b[1]
                for cons in fdoms[fi]:
                    if cons in STRUCTURAL:
                        if not any(f.key == 'structural-member-accepted' for f in r.findings):
                            ok_, detail = replay_structural(target, cons)
                            r.findings.append(Finding('structural-member-accepted', 'derive(%s) accepts a member of type %s and generates a .%s() call on it; no such method can exist (inherent impls on tuple / array / function / dyn types are rejected), so the generated code fails in the type checker instead of derive reporting the member' % (target, cons, meth), {'type': cons}, ok_, detail))
                        continue
                    if cons not in SCALARS:
                        if c_[0] != 'method' or c_[1] != meth:
                            tn = list(default_t); add('wrong-composite-conversion', 'a field of type %s is converted by %s, not by a .%s() call' % (cons, c_[:2], meth), {'type': cons}, rp_with(tn))
                        continue
                    tn = list(default_t); tn[fi] = SCALARS[cons]
                    ok_, how = conversions_ok(c_, SCALARS[cons], target, funcs, methods)
                    if not ok_ and 'not a JSON value' in how:
                        add('conversion-not-json', 'derive(%s): a member of type %s is converted by %s' % (target, SCALARS[cons], how), {'type': SCALARS[cons], 'conversion': list(c_[:2])}, rp_with(tn))
                    elif not ok_:
                        add('conversion-missing', 'derive(%s): a member of type %s is converted by %s' % (target, SCALARS[cons], how), {'type': SCALARS[cons], 'conversion': list(c_[:2])}, rp_with(tn))
            if k == 'struct' and sorted(i for i in idxs if i is not None) != [i for i in range(n_m) if not (target == 'ToJson' and fdoms[i] == ['TUnit'])] and sorted(i for i in idxs if i is not None) != list(range(n_m)):
                add('wrong-member', 'the members convert the fields %s, expected each of %d fields once in order' % (idxs, n_m), {'fields': idxs}, rp_with(default_t))
            elif idxs != sorted(idxs):
                add('wrong-member', 'the members convert the fields in the order %s' % idxs, {'fields': idxs}, rp_with(default_t))
            for hname, b in captured:
                tn = list(default_t)
                add('helper-captured', 'derive(%s): the helper `%s` called by the generated code is bound by the generated pattern to field %s of the same name' % (target, hname, b), {'helper': hname}, rp_with(tn))
            if len(r.samples) < 3: r.samples.append({'kind': k, 'names': list(fnames or [vname]), 'text': text[:120]})

HELPER_NAMES = [('a', 'b', 'c'), ('bool_to_json', 'json_escape_string', 'x'), ('self', 'to_json', 'to_string'), ('__field0', '__field1', 'S')]

def obligations():
    obs = []
    for target in ('ToJson', 'ToString'):
        t = target.lower()
        obs.append(Ob('O18.1-struct-%s-0' % t, 'derive(%s) on a struct without fields' % target, ob_derive, ('quick', 'thorough'), 1, dict(kind='struct', target=target, nfields=0, name_sets=[()])))
        obs.append(Ob('O18.1-struct-%s-1' % t, 'derive(%s) on a struct with one field of any type' % target, ob_derive, ('quick', 'thorough'), 2, dict(kind='struct', target=target, nfields=1, name_sets=[(n[0],) for n in HELPER_NAMES] + [('bool_to_json',), ('json_escape_string',)])))
        obs.append(Ob('O18.1-struct-%s-2' % t, 'derive(%s) on a struct with two fields of any types' % target, ob_derive, ('quick', 'thorough'), 8, dict(kind='struct', target=target, nfields=2, name_sets=[n[:2] for n in HELPER_NAMES] + [('x', 'bool_to_json'), ('x', 'json_escape_string')])))
        obs.append(Ob('O18.1-struct-%s-3' % t, 'derive(%s) on a struct with three fields of any types' % target, ob_derive, ('thorough',), 40, dict(kind='struct', target=target, nfields=3, name_sets=HELPER_NAMES[:2])))
        obs.append(Ob('O18.2-enum-%s' % t, 'derive(%s) on enums with one to three variants and payloads of 0..2 components' % target, ob_derive, ('quick', 'thorough'), 10,
                      dict(kind='enum', target=target, nfields=0, name_sets=[('A', 'B', 'C'), ('__field0', 'self', 'E')], variants=[(0,), (1,), (2,), (0, 1), (1, 0), (2, 1), (0, 0, 1), (1, 2, 0)])))
        # wide definitions (one scalar type, no forking): 6 / 11 / 17 / 33 members, i.e. 19 .. 100 text pieces in one generated expression
        for n in (6, 11, 17, 33):
            obs.append(Ob('O18.1-struct-%s-wide-%d' % (t, n), 'derive(%s) on a struct with %d int32 fields' % (target, n), ob_derive, ('quick', 'thorough') if n in (6, 17) else ('thorough',), 3,
                          dict(kind='struct', target=target, nfields=n, name_sets=[tuple('f%d' % i for i in range(n))], ty_allowed=['TInt32'])))
        obs.append(Ob('O18.2-enum-%s-wide' % t, 'derive(%s) on enums with a variant of 8 / 9 / 17 / 33 int32 payload components' % target, ob_derive, ('quick', 'thorough'), 5,
                      dict(kind='enum', target=target, nfields=0, name_sets=[('A', 'B', 'C')], variants=[(8,), (0, 9), (17, 1), (33,)], ty_allowed=['TInt32'])))
    return obs

META = {
    'level': 'other',
    'explanation': 'Bounded facets of C18 decided on the real code: derive::expand (MIR of the current tree, with the ast constructors it calls) is executed on struct and enum definitions whose field / payload types are lazily initialised ast::TypeExpr values (the solver ranges over the constructors; the run forks only where the code distinguishes them). The generated method is evaluated by a reference evaluator; the result must be the documented JSON / text template, every scalar member must be converted by a function or method that exists for its type in the builtin environment (read from builtin.gom and from builtins::builtin_inherent_methods executed from its MIR), and no helper called by name may be captured by a generated binder. Counterexamples are compiled through the real CLI (`run --dump-ast`).',
    'assumptions': ['outside this claim: the behaviour of the emitted Go (json_escape_string = fmt.Sprintf("%q"), number formatting), JSON escaping of strings, composite and user-defined field types beyond "a .to_json() / .to_string() method call is generated", generic definitions beyond "rejected with a derive diagnostic"'],
    'trusted_base': ['mirsym MIR interpreter', 'library models listed per obligation', 'z3', 'reference evaluator for the generated expression subset (40 lines)', "Python's json parser as the JSON grammar"],
}

# ----------------------------------------------------------------------------- O18.3 the string leaf of to_json: what the runtime helper json_escape_string prints is a JSON string
def ob_json_escape(r, tier, seed):
    W = e2.fresh_world(CRATES); tt = W.tt
    GFN = tt.find_adt(['goast', 'Fn'], 'compiler'); GE = tt.find_adt(['goast', 'Expr'], 'compiler'); GST = tt.find_adt(['goast', 'Stmt'], 'compiler')
    r.bounds = 'go::runtime::json_escape_string (MIR of the current tree) is executed; the Go function it builds must be `return fmt.Sprintf(<verb>, s)`; for that verb a z3 query ranges over every Unicode scalar value c (0 .. 0x10FFFF without surrogates) and over whether unicode.IsPrint(c) holds (free for c >= 0x80, fixed for ASCII)'
    r.assumptions = ['reference semantics of Go\'s fmt verbs %q / %+q on one character, written from the documentation of strconv.Quote / QuoteToASCII (20 lines): `"` and `\\\\` get a backslash; printable characters (%+q: printable ASCII only) are copied; \\a \\b \\f \\n \\r \\t \\v; other characters below 0x20 and 0x7f as \\xNN; characters above 0xFFFF as \\UXXXXXXXX; the rest as \\uXXXX',
                     'JSON (RFC 8259): a string may contain any character >= 0x20 except `"` and `\\\\` literally, and the escapes \\" \\\\ \\/ \\b \\f \\n \\r \\t \\uXXXX only',
                     'oracle: for every character the text printed for it is a legal piece of a JSON string; there is no Go toolchain to run the helper, so a counterexample is replayed by (1) finding the verb in the Go text the real CLI emits for a derive(ToJson) program and (2) the reference semantics above on the witness character, parsed with Python\'s JSON parser',
                     'any other verb or body shape is inconclusive (exit 2)']
    def entry(ex):
        fn = ex.call('go::runtime::json_escape_string', [])
        fd = dict(zip([x[0] for x in GFN.variants[0].fields], fn.fields)); stmts = fd['body'].fields[0].items
        if len(stmts) != 1 or GST.variants[stmts[0].idx].name != 'Return' or stmts[0].fields[0].idx != 1: raise Unsupported('json_escape_string: body is not a single return')
        e = stmts[0].fields[0].fields[0]
        if GE.variants[e.idx].name != 'Call': raise Unsupported('json_escape_string: not a call')
        ef = dict(zip([x[0] for x in GE.variants[e.idx].fields], e.fields)); f_ = unbox(ef['func'])
        fname = ms.pystr(dict(zip([x[0] for x in GE.variants[f_.idx].fields], f_.fields))['name']) if GE.variants[f_.idx].name == 'Var' else '?'
        args = ef['args'].items
        if fname != 'fmt.Sprintf' or len(args) != 2 or GE.variants[args[0].idx].name != 'String' or GE.variants[args[1].idx].name != 'Var': raise Unsupported('json_escape_string: not fmt.Sprintf(<literal>, s): %s' % fname)
        return ms.pystr(dict(zip([x[0] for x in GE.variants[args[0].idx].fields], args[0].fields))['value'])
    res = e2.explore(r, W, entry, [])
    if len(res) != 1 or res[0].kind != 'ok': raise Unsupported('json_escape_string: %s' % (res[0].value if res else 'no path'))
    verb = res[0].value; r.cases += 1; r.nontrivial += 1
    if verb not in ('%q', '%+q'): raise Unsupported('no reference semantics for the verb %r' % verb)
    c = z3.Int('c'); p = z3.Bool('isprint')
    dom = [c >= 0, c <= 0x10FFFF, z3.Or(c < 0xD800, c > 0xDFFF), z3.Implies(c < 0x80, p == z3.And(c >= 0x20, c <= 0x7e))]
    copied = p if verb == '%q' else z3.And(p, c < 0x80)
    quoted2 = z3.Or(c == 34, c == 92)
    short_ok = z3.Or(c == 8, c == 12, c == 10, c == 13, c == 9); short_bad = z3.Or(c == 7, c == 11)
    hexx = z3.And(z3.Not(short_ok), z3.Not(short_bad), z3.Or(c < 0x20, c == 0x7f)); bigu = c > 0xFFFF
    invalid = z3.And(z3.Not(quoted2), z3.Not(copied), z3.Or(short_bad, hexx, bigu))        # the \uXXXX rest and the copied / \" \\ cases are legal JSON
    classes = [('json-escape-control-char', z3.Or(short_bad, hexx)), ('json-escape-nonprintable-above-bmp', z3.And(bigu, z3.Not(p))), ('json-escape-printable-above-bmp', z3.And(bigu, p))]
    for key, cl in classes:
        m, dt = e2.check(dom + [invalid, cl]); r.queries += 1; r.solver_s += dt
        if m is None: continue
        cv = e2.mval(m, c)
        pref = {'json-escape-printable-above-bmp': 0x1F600, 'json-escape-nonprintable-above-bmp': 0xE0001}.get(key)      # witnesses whose printability is the same in Go's and Python's tables (emoji / LANGUAGE TAG)
        if pref is not None:
            m2, dt = e2.check(dom + [invalid, cl, c == pref]); r.queries += 1; r.solver_s += dt
            if m2 is not None: cv = pref
        ok_, detail = replay_json_escape(verb, cv)
        r.findings.append(Finding(key, 'json_escape_string = fmt.Sprintf(%r, s): the character U+%04X is printed as %s, which is not a legal piece of a JSON string' % (verb, cv, go_quote_char(verb, cv, chr(cv).isprintable())), {'verb': verb, 'char': cv}, ok_, detail))
    m, dt = e2.check(dom + [invalid] + [z3.Not(cl) for _, cl in classes]); r.queries += 1; r.solver_s += dt
    if m is not None: r.findings.append(Finding('json-escape-other', 'unclassified illegal piece for U+%04X' % e2.mval(m, c), {}, False, 'not replayed'))
    r.samples.append({'verb': verb})

def go_quote_char(verb, cv, printable):
    if cv in (34, 92): return '\\' + chr(cv)
    if printable and (verb == '%q' or cv < 0x80): return chr(cv)
    tab = {7: '\\a', 8: '\\b', 12: '\\f', 10: '\\n', 13: '\\r', 9: '\\t', 11: '\\v'}
    if cv in tab: return tab[cv]
    if cv < 0x20 or cv == 0x7f: return '\\x%02x' % cv
    return ('\\U%08x' % cv) if cv > 0xFFFF else ('\\u%04x' % cv)

def replay_json_escape(verb, cv):
    src = '#[derive(ToJson)]\nstruct S { s: string }\nfn main() -> unit { string_println(S { s: "x" }.to_json()) }\n'
    d = tempfile.mkdtemp(prefix='vf-c18j-')
    try:
        open(os.path.join(d, 'main.gom'), 'w').write(src)
        out = subprocess.run([build.compiler_bin(), 'run', '--dump-go', os.path.join(d, 'main.gom')], capture_output=True, text=True, timeout=60).stdout
    finally: shutil.rmtree(d, ignore_errors=True)
    m_ = re.search(r'func json_escape_string\(s string\) string \{\s*return fmt\.Sprintf\("([^"]*)", s\)', out)
    if not m_ or m_.group(1) != verb: return False, 'the emitted Go does not show fmt.Sprintf(%r, s) in json_escape_string: %s' % (verb, m_.group(0)[:120] if m_ else out[-200:])
    piece = '"' + go_quote_char(verb, cv, chr(cv).isprintable()) + '"'
    try: json.loads(piece); legal = True
    except Exception: legal = False
    return (not legal), 'the Go text emitted by the real CLI for a derive(ToJson) program defines json_escape_string as fmt.Sprintf("%s", s); by the reference semantics U+%04X is printed as %s, which Python\'s JSON parser %s' % (verb, cv, piece, 'accepts' if legal else 'rejects')

_c18_obl3 = obligations
def obligations():
    return _c18_obl3() + [Ob('O18.3-json-escape', 'every character of a string leaf is printed by json_escape_string as a legal piece of a JSON string', ob_json_escape, ('quick', 'thorough'), 1, {})]

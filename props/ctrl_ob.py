"""C03 O3.9 - typing of the control forms: `if`, `while` and tuple projection are accepted exactly when their parts have the types the
language requires (condition bool; both branches of one type = the type of the `if`; loop body unit; projection index inside the tuple),
both when the type is inferred and when the form is checked against an expected type."""
import os, subprocess, tempfile, shutil
from vlib import e2, build
from vlib.core import Ob, Finding
import mirsym as ms
from mirsym.engine import Agg, PyVec, Str, Ref, Opaque, Unsupported, mkstr, UNIT

CRATES = ('compiler', 'common_defs', 'diagnostics', 'parser')
LEAF_SRC = {'I': '1', 'B': 'true', 'U': '()'}
KIND_TY = {'I': 'TInt32', 'B': 'TBool', 'U': 'TUnit'}
GOML = {'TInt32': 'int32', 'TBool': 'bool', 'TUnit': 'unit'}

def form_src(form, parts, idx):
    if form == 'if': return 'if %s { %s } else { %s }' % tuple(LEAF_SRC[k] for k in parts)
    if form == 'while': return 'while %s { %s }' % tuple(LEAF_SRC[k] for k in parts)
    if form == 'let': return '{ let _: %s = %s; }' % (GOML[['TInt32', 'TBool', 'TUnit'][idx]], LEAF_SRC[parts[0]])
    return '(%s, %s).%d' % (LEAF_SRC[parts[0]], LEAF_SRC[parts[1]], idx)

def replay(form, parts, idx, expected):
    e = form_src(form, parts, idx)
    src = ('fn main() -> unit { let t: %s = %s; () }\n' % (GOML[expected], e)) if expected else ('fn main() -> unit { let t = %s; () }\n' % e)
    d = tempfile.mkdtemp(prefix='vf-c03c-')
    try:
        open(os.path.join(d, 'main.gom'), 'w').write(src)
        pr = subprocess.run([build.compiler_bin(), 'run', '--dump-tast', os.path.join(d, 'main.gom')], capture_output=True, text=True, timeout=60)
    finally: shutil.rmtree(d, ignore_errors=True)
    txt = pr.stdout + pr.stderr
    return ('error (' in txt or 'error:' in txt), src, txt

def ob_control_forms(r, tier, seed):
    W = e2.fresh_world(CRATES); tt = W.tt
    TY = tt.find_adt(['tast', 'Ty'], 'compiler'); TE = tt.find_adt(['tast', 'Expr'], 'compiler'); TYPER = tt.find_adt(['typer', 'Typer'], 'compiler')
    HP = [a for a in tt.by_name['Pat'] if a.crate == 'compiler' and 'hir' in '::'.join(a.path)][0]; HT = [a for a in tt.by_name['TypeExpr'] if a.crate == 'compiler' and 'hir' in '::'.join(a.path)][0]
    HE = [a for a in tt.by_name['Expr'] if a.crate == 'compiler' and 'hir' in '::'.join(a.path)][0]; DI = tt.find_adt(['diagnostics', 'Diagnostics'], 'diagnostics')
    r.bounds = 'the forms `if C { A } else { B }`, `while C { A }`, `let _: T = A` (T in int32 / bool / unit) and `(A, B).i` (i in 0..2) with every part one of the literals 1 / true / (); each form both inferred and checked against each of int32 / bool / unit: every combination'
    r.assumptions = ['HirTable::expr returns the chosen expressions; result recording stubbed; then the real Typer::infer_expr / check_expr, Typer::solve and Typer::subst run',
                     'oracle: accepted (no diagnostic) iff the condition is bool, both branches have one type (which is the type of the `if`), a loop body is unit and the loop itself is unit, a projection index lies inside the tuple and yields the type of that component, the initialiser of an annotated let has the annotated type (the let itself is unit); an expected type must equal the type of the form (the unsuffixed literal 1 counts as int32)']
    from props import c03 as c03m
    c3 = c03m.Ctx(W); cur = {}
    def ov(f, g):
        if 'TypeckResultsBuilder' in g and 'record_' in g:
            def m_record(ex, f_, a): return UNIT
            return m_record
        return None
    W.overrides = [ov, c03m.ena_overrides(c3)]
    for meth in ('record_expr_result', 'record_expr_ty', 'record_pat_ty', 'record_local_ty', 'record_name_ref_elab'):
        for nm in list(W.methods.get(meth, [])): W.stubs[nm[1]] = lambda ex, a: UNIT
    def stub_expr(ex, a):
        eid = a[1]
        while isinstance(eid, Agg): eid = eid.fields[-1]
        return Ref(cur['exprs'], eid)
    for nm in list(W.methods.get('pat', [])):
        if nm[2] is not None and nm[2].self_key == 'HirTable': W.stubs[nm[1]] = lambda ex, a: Ref(cur, 'pat')
    for nm in list(W.methods.get('current_tparams_env', [])): W.stubs[nm[1]] = lambda ex, a: PyVec([])
    for nm in list(W.methods.get('expr', [])):
        if nm[2] is not None and nm[2].self_key == 'HirTable': W.stubs[nm[1]] = stub_expr
    eid = lambda i: Agg('ExprId', 0, [i])
    H = lambda n, **kw: Agg(HE.key, HE.vindex(n), [kw[f[0]] for f in HE.variants[HE.vindex(n)].fields])
    def leaf(k): return H('EInt', value=mkstr('1')) if k == 'I' else (H('EBool', value=True) if k == 'B' else Agg(HE.key, HE.vindex('EUnit'), []))
    def entry(ex):
        form = ex.choose([(True, f) for f in ('if', 'while', 'proj', 'let')])
        nparts = {'if': 3, 'while': 2, 'proj': 2, 'let': 1}[form]
        parts = [ex.choose([(True, k) for k in 'IBU']) for _ in range(nparts)]
        idx = ex.choose([(True, i) for i in (0, 1, 2)]) if form in ('proj', 'let') else 0
        expected = ex.choose([(True, None), (True, 'TInt32'), (True, 'TBool'), (True, 'TUnit')])
        exprs = {i + 1: leaf(k) for i, k in enumerate(parts)}
        if form == 'if': exprs[0] = H('EIf', cond=eid(1), then_branch=eid(2), else_branch=eid(3))
        elif form == 'while': exprs[0] = H('EWhile', cond=eid(1), body=eid(2))
        elif form == 'let':
            cur['pat'] = Agg(HP.key, HP.vindex('PWild'), [])
            exprs[0] = H('ELet', pat=Agg('PatId', 0, [0]), annotation=ms.some(Agg(HT.key, HT.vindex(['TInt32', 'TBool', 'TUnit'][idx]), [])), value=eid(1))
        else:
            exprs[9] = H('ETuple', items=PyVec([eid(1), eid(2)])); exprs[0] = H('EProj', tuple=eid(9), index=idx)
        cur['exprs'] = exprs
        typer = Agg(TYPER.key, 0, [{'uni': c03m.UTable(), 'constraints': PyVec([]), 'hir_table': Opaque('hir_table'), 'results': Opaque('results')}[f[0]] for f in TYPER.variants[0].fields])
        h = {0: typer, 1: Opaque('genv'), 2: Opaque('local_env'), 3: Agg(DI.key, 0, [PyVec([])])}
        ex.notes['w'] = (form, parts, idx, expected)
        if expected is None: out = ex.call('Typer::infer_expr', [Ref(h, 0), Ref(h, 1), Ref(h, 2), Ref(h, 3), eid(0)])
        else:
            h[4] = Agg(TY.key, TY.vindex(expected), [])
            out = ex.call('Typer::check_expr', [Ref(h, 0), Ref(h, 1), Ref(h, 2), Ref(h, 3), eid(0), Ref(h, 4)])
        ex.call('Typer::solve', [Ref(h, 0), Ref(h, 1), Ref(h, 3)])
        out2 = ex.call('Typer::subst', [Ref(h, 0), Ref(h, 3), out])
        f = dict(zip([x[0] for x in TE.variants[out2.idx].fields], out2.fields))
        return form, parts, idx, expected, len(h[3].fields[0].items), TE.variants[out2.idx].name, TY.variants[f['ty'].idx].name
    res = e2.explore(r, W, entry, [])
    for p in res:
        r.cases += 1
        if p.kind != 'ok':
            if not any(f.key == 'panic' for f in r.findings): r.findings.append(Finding('panic', 'typing the form %s panics: %s' % ((p.notes or {}).get('w'), p.value), {}, False, 'not replayed'))
            continue
        form, parts, idx, expected, nd, node, ty = p.value
        r.nontrivial += 1
        if form == 'if': ok_form = parts[0] == 'B' and parts[1] == parts[2]; kind = parts[1]
        elif form == 'while': ok_form = parts[0] == 'B' and parts[1] == 'U'; kind = 'U'
        elif form == 'let': ok_form = KIND_TY[parts[0]] == ['TInt32', 'TBool', 'TUnit'][idx]; kind = 'U'
        else: ok_form = idx < 2; kind = parts[idx] if idx < 2 else None
        want_ok = ok_form and (expected is None or KIND_TY[kind] == expected)
        bad_verdict = (nd == 0) != want_ok
        bad_type = nd == 0 and want_ok and kind in ('B', 'U') and ty != KIND_TY[kind]
        if bad_verdict or bad_type:
            key = ('%s-ill-typed-accepted' % form) if (bad_verdict and not want_ok) else (('%s-well-typed-rejected' % form) if bad_verdict else '%s-wrong-type' % form)
            if any(f.key == key for f in r.findings): continue
            try:
                rejected, src, txt = replay(form, parts, idx, expected)
                ok_ = (rejected == want_ok) if bad_verdict else True
                detail = 'goml `%s`: %s' % (src.strip(), ('rejected: ' + txt[:120].replace('\n', ' ')) if rejected else 'accepted')
            except Exception as e_: ok_, detail = False, 'replay failed: %s' % str(e_)[:160]
            r.findings.append(Finding(key, '`%s` %s: %d diagnostics, elaborated as %s of type %s' % (form_src(form, parts, idx), 'inferred' if expected is None else 'checked against ' + GOML[expected], nd, node, ty), {'form': form, 'parts': parts, 'index': idx, 'expected': expected}, ok_, detail))
        elif len(r.samples) < 3 and want_ok: r.samples.append({'form': form_src(form, parts, idx), 'expected': expected, 'type': ty})

def obligations():
    return [Ob('O3.9-control-forms', 'if / while / tuple projection are accepted exactly when their parts have the required types', ob_control_forms, ('quick', 'thorough'), 3, {})]

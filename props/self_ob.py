"""C03 O3.10 - `Self` in the signature of an impl method is replaced by the implementing type at every position of the type, by all
copies of instantiate_self_ty (typer/toplevel.rs checks bodies and call sites with it, typer/tast_builder.rs writes the signature into the typed
tree, typer/check.rs instantiates method types at call sites): they must agree with the substitution, otherwise a later stage is ill-typed."""
import json, os, re, subprocess, tempfile, shutil
from vlib import e2, build
from vlib.core import Ob, Finding
import mirsym as ms
from mirsym.lazy import Spec, force
from mirsym.engine import Agg, PyVec, Ref, Unsupported, mkbox, mkstr
from props.enc_ob import shape
from props.mono_ob import goml_ty

CRATES = ('compiler', 'common_defs', 'diagnostics')

def subst_self(sh):
    if sh['k'] == 'TStruct' and sh.get('name') == 'Self': return {'k': 'TStruct', 'name': 'C'}
    out = dict(sh)
    if 'base' in sh: out['base'] = subst_self(sh['base'])
    if 'a' in sh: out['a'] = [subst_self(x) for x in sh['a']]
    return out

def replay_self(tsh):
    t = goml_ty(tsh).replace('Self', 'Self')
    src = 'struct C { v: int32 }\nenum Opt[T] { Non, Som(T) }\nimpl C {\n  fn mk(self: Self) -> %s { C::mk(self) }\n}\nfn main() -> unit { let c = C { v: 1 }; let r = C::mk(c); () }\n' % t
    d = tempfile.mkdtemp(prefix='vf-c03-')
    try:
        open(os.path.join(d, 'main.gom'), 'w').write(src)
        p = subprocess.run([build.compiler_bin(), 'run', '--dump-core', os.path.join(d, 'main.gom')], capture_output=True, text=True, timeout=60)
    finally: shutil.rmtree(d, ignore_errors=True)
    txt = p.stdout
    if '== Core ==' not in txt and 'fn ' not in txt: raise Unsupported('replay program rejected: ' + (p.stdout + p.stderr).strip()[:200])
    hit = [l for l in txt.splitlines() if re.search(r'\bSelf\b', l)]
    return bool(hit), 'goml `%s`: %s' % (src.replace('\n', ' | '), ('the Core dump still mentions Self: ' + hit[0].strip()[:160]) if hit else 'no Self left in the Core dump')

def ob_instantiate_self(r, tier, seed, fn_name, top, inner, depth):
    W = e2.fresh_world(CRATES); tt = W.tt; TY = tt.find_adt(['tast', 'Ty'], 'compiler')
    r.bounds = '%s on every type of depth <= %d: top constructor in %s, inner in %s, leaves int32 / Self / struct A / type parameter T; component lists of one element; implementing type struct C' % (fn_name, depth, top, inner)
    r.assumptions = ['oracle: the result is the type with every occurrence of the placeholder Self (TStruct "Self") replaced by the implementing type, nothing else changed']
    class S2(Spec):
        def make_adt(s, ex, adt, d, path, subst):
            if adt.name == 'Ty': s.allowed['Ty'] = top if d == depth else inner
            return Spec.make_adt(s, ex, adt, d, path, subst)
    spec = S2(tt, allowed={'Ty': top}, leaves={'Ty': ['TInt32', 'TStruct', 'TParam']}, strings=('Self', 'A'), vec_len=(1, 1), int_choices=[2], depth=depth,
              field_hooks={('Ty', 'TApp', 'ty'): lambda sp, ex, d, p: mkbox(Agg(TY.key, TY.vindex('TEnum'), [mkstr('Opt')])), ('Ty', 'TParam', 'name'): lambda sp, ex, d, p: mkstr('T')})
    def entry(ex):
        t = force(ex, spec.root(ex, 'tast::Ty', tag='t')); tsh = shape(t, TY)
        h = {0: t, 1: Agg(TY.key, TY.vindex('TStruct'), [mkstr('C')])}
        out = ex.call(fn_name, [Ref(h, 0), Ref(h, 1)])
        return tsh, shape(out, TY)
    res = e2.explore(r, W, entry, [])
    for p in res:
        r.cases += 1
        if p.kind != 'ok':
            if not any(f.key == 'panic' for f in r.findings): r.findings.append(Finding('panic', '%s panics: %s' % (fn_name, str(p.value)[:200]), {}, False, 'not replayed'))
            continue
        tsh, osh = p.value; want = subst_self(tsh)
        if want != tsh: r.nontrivial += 1
        if osh != want:
            js = json.dumps(tsh); under = next((k for k in ('TRef', 'TVec', 'TArray', 'TFunc', 'TTuple', 'TApp') if ('"%s"' % k) in js), tsh['k'])
            key = 'self-not-instantiated:under-' + under
            if any(f.key == key for f in r.findings): continue
            try: ok_, detail = replay_self(tsh)
            except Exception as e_: ok_, detail = False, 'replay failed: %s' % str(e_)[:200]
            r.findings.append(Finding(key, '%s(%s, C) = %s, expected %s' % (fn_name.split('::')[-2] + '::instantiate_self_ty', goml_ty(tsh), json.dumps(osh)[:200], json.dumps(want)[:200]), {'type': tsh}, ok_, detail))
        elif len(r.samples) < 2 and want != tsh: r.samples.append({'type': goml_ty(tsh)})

def obligations():
    comp = ['TTuple', 'TApp', 'TArray', 'TVec', 'TRef', 'TFunc']
    obs = []
    for short, fn in (('builder', 'typer::tast_builder::instantiate_self_ty'), ('toplevel', 'typer::toplevel::instantiate_self_ty'), ('check', 'typer::check::instantiate_self_ty')):
        obs.append(Ob('O3.10-self-instantiated-%s' % short, 'Self is replaced by the implementing type at every position (%s)' % fn, ob_instantiate_self, ('quick', 'thorough'), 3, dict(fn_name=fn, top=comp + ['TStruct'], inner=comp + ['TStruct', 'TInt32'], depth=2)))
    return obs

"""Differential validation of the MIR executor itself (not a deciding step): the same interpreter on CONCRETE inputs must reproduce native behaviour.
A mismatch makes the run inconclusive (exit 2): nothing decided by the engine is believed until it is explained."""
import os, json, glob
import z3
from vlib import e2, build
from vlib.core import Ob
import mirsym as ms
from mirsym.engine import Unsupported
from props import parser_ob

def corpus_files(limit):
    fs = sorted(glob.glob(os.path.join(build.REPO, 'crates/compiler/src/tests/pipeline/*/main.gom')))
    fs = [f for f in fs if os.path.getsize(f) < 2500]
    step = max(1, len(fs) // limit)
    return fs[::step][:limit]

def ob_parser_selftest(r, tier, seed, nfiles):
    pw = parser_ob.PW(); pw.W.step_limit = 3000000
    files = corpus_files(nfiles)
    r.bounds = '%d corpus programs (< 2.5 kB) lexed by the real lexer; each token stream unchanged, and with every 7th non-trivia token deleted (error recovery paths); compared: tokens in the tree, number of diagnostics, root kind' % len(files)
    texts = [open(f).read() for f in files]
    rc, out, errt = build.run_driver('vreplay', '\n'.join(json.dumps({'fn': 'lex', 'args': [t]}) for t in texts) + '\n')
    streams = [[t[0] for t in json.loads(l)['ok']] for l in out.splitlines()]
    cases = []
    for f, ks in zip(files, streams):
        cases.append((f, 'as-is', ks))
        nt = [i for i, k in enumerate(ks) if k not in ('Whitespace', 'Comment')]
        drop = set(nt[3::7]); cases.append((f, 'every-7th-deleted', [k for i, k in enumerate(ks) if i not in drop]))
    rc, out, errt = build.run_driver('vreplay', '\n'.join(json.dumps({'fn': 'parse_kinds', 'args': [ks, pw.kinds]}) for _, _, ks in cases) + '\n', timeout=900)
    native = [json.loads(l) for l in out.splitlines()]
    if len(native) != len(cases): raise Unsupported('native driver returned %d answers for %d cases: %s' % (len(native), len(cases), errt[-200:]))
    for (f, mode, ks), nat in zip(cases, native):
        def entry(ex, ks=ks): return parser_ob.run_parser(pw, ex, ks)
        res = e2.explore(r, pw.W, entry, [])
        r.cases += 1
        if len(res) != 1: raise Unsupported('concrete run forked: %s %s' % (f, mode))
        p = res[0]
        if p.kind != 'ok':
            if 'panic' in nat: r.nontrivial += 1; continue
            raise Unsupported('SELFTEST MISMATCH %s (%s): MIR run panics (%s), native does not' % (os.path.basename(os.path.dirname(f)), mode, p.value))
        o = p.value; n = nat.get('ok')
        if n is None: raise Unsupported('SELFTEST MISMATCH %s (%s): native panics, MIR run does not' % (f, mode))
        if o['emitted'] != n['tree_tokens'] or len(o['diags']) != n['diagnostics']:
            raise Unsupported('SELFTEST MISMATCH %s (%s): tokens in tree %d vs native %d, diagnostics %d vs native %d' % (os.path.basename(os.path.dirname(f)), mode, len(o['emitted']), len(n['tree_tokens']), len(o['diags']), n['diagnostics']))
        r.nontrivial += 1
        if len(r.samples) < 3: r.samples.append({'file': os.path.basename(os.path.dirname(f)), 'mode': mode, 'tokens': len(ks), 'diagnostics': n['diagnostics']})

def ob_mangle_selftest(r, tier, seed):
    from props import c19, enc_ob
    W = e2.fresh_world(c19.CRATES)
    names = ['a', 'A1', '_x', 'go', 'func', 'interface', 'x#y', 'a::b', 'trait_impl#Show#Point#show', 'inherent#Vec#Vec[int32]#len', '1abc', '', 'é', 'a→b', 'a b', 'x/y', '(a,b)', 'Tuple_A', '_goml_x', '__', '#', 'a_#_', 'range_', 'int32', 'f.g', 'a\tb', '\x01', 'Ωmega', 'closure_env_main_0', 'main0', 'ref_int32_x']
    r.bounds = 'go_ident on %d fixed names, encode_ty on 12 fixed types: MIR execution vs native function' % len(names)
    nat = c19.native_go_ident(names)
    for n, want in zip(names, nat):
        res = e2.explore(r, W, lambda ex, n=n: ex.call('go_ident', [ms.mkstr(n)]), [])
        r.cases += 1
        got = ms.pystr(res[0].value) if len(res) == 1 and res[0].kind == 'ok' else None
        if got != want: raise Unsupported('SELFTEST MISMATCH go_ident(%r): MIR %r, native %r' % (n, got, want))
        r.nontrivial += 1
    P = lambda k, **kw: dict(k=k, **kw)
    tys = [P('TInt32'), P('TStruct', name='A'), P('TTuple', a=[P('TInt32'), P('TBool')]), P('TTuple', a=[]), P('TArray', len=3, a=[P('TString')]), P('TVec', a=[P('TStruct', name='A_B')]),
           P('TRef', a=[P('TTuple', a=[P('TInt8'), P('TUint64')])]), P('TFunc', a=[P('TInt32'), P('TBool'), P('TString')]), P('TFunc', a=[P('TUnit')]), P('TApp', base=P('TEnum', name='Option'), a=[P('TInt32')]),
           P('TParam', name='T'), P('TDyn', name='Show')]
    natv = enc_ob.native_encode(tys)
    TY = W.tt.find_adt(['tast', 'Ty'], 'compiler')
    def build_ty(d):
        from mirsym.engine import Agg, PyVec, mkbox
        mk = lambda n, *f: Agg(TY.key, TY.vindex(n), list(f)); k = d['k']
        if k in enc_ob.PRIMS: return mk(k)
        if k in ('TParam', 'TEnum', 'TStruct', 'TDyn'): return mk(k, ms.mkstr(d['name']))
        if k == 'TTuple': return mk(k, PyVec([build_ty(x) for x in d['a']]))
        if k == 'TArray': return mk(k, d['len'], mkbox(build_ty(d['a'][0])))
        if k in ('TVec', 'TRef'): return mk(k, mkbox(build_ty(d['a'][0])))
        if k == 'TFunc': return mk(k, PyVec([build_ty(x) for x in d['a'][:-1]]), mkbox(build_ty(d['a'][-1])))
        if k == 'TApp': return mk(k, mkbox(build_ty(d['base'])), PyVec([build_ty(x) for x in d['a']]))
    for d, want in zip(tys, natv):
        h = [build_ty(d)]
        res = e2.explore(r, W, lambda ex, h=h: ex.call('encode_ty', [ms.Ref(h, 0)]), [])
        r.cases += 1
        got = ms.pystr(res[0].value) if len(res) == 1 and res[0].kind == 'ok' else None
        if got != want: raise Unsupported('SELFTEST MISMATCH encode_ty(%s): MIR %r, native %r' % (json.dumps(d), got, want))
        r.nontrivial += 1
    r.samples.append({'go_ident': dict(list(zip(names, nat))[:4])})

def parser_obligations(prefix):
    return [Ob(prefix + '-engine-selftest-parser', 'MIR executor reproduces the native parser on concrete corpus token streams', ob_parser_selftest, ('quick',), 5, dict(nfiles=8)),
            Ob(prefix + '-engine-selftest-parser-all', 'MIR executor reproduces the native parser on concrete corpus token streams (all small corpus files)', ob_parser_selftest, ('thorough',), 50, dict(nfiles=60))]
def mangle_obligations(prefix):
    return [Ob(prefix + '-engine-selftest-mangle', 'MIR executor reproduces native go_ident / encode_ty on fixed inputs', ob_mangle_selftest, ('quick', 'thorough'), 1, {})]

# ----------------------------------------------------------------------------- library models vs native std: differential probes (added after two mis-modelled std operations had produced wrong passes)
def probe_cases():
    cases = []
    for op in range(18):
        for ti in range(5):
            rng = range(0, 8)
            if op in (0, 1, 8): cases += [('s', op * 5 + ti, a, b) for a in rng for b in rng]
            elif op in (2, 3, 4, 6, 9): cases += [('s', op * 5 + ti, a, 0) for a in rng]
            elif op in (5, 7): cases += [('s', op * 5 + ti, 0, b) for b in rng]
            else: cases.append(('s', op * 5 + ti, 0, 0))
    for op in range(36):
        if op in (2, 4, 14, 26, 27): cases += [('i', op, a, b) for a in range(0, 6) for b in range(0, 6)]
        elif op in (0, 1, 6, 28): cases.append(('i', op, 0, 0))
        elif op in (7, 8, 9, 10, 15, 22, 23): cases += [('i', op, a, 0) for a in (5, 10, 20, 25, 40, 45)]
        elif op in (24, 25, 30, 32, 33): cases += [('i', op, a, b) for a in (0, 1, 3, 20, 200, 255) for b in (0, 1, 3, 30, 100)]
        else: cases += [('i', op, a, a) for a in range(0, 6)]
    for op in range(21): cases += [('o', op, a, b) for a in (-2, 0, 3, 5) for b in (-1, 0, 3, 9)]
    for op in range(14): cases += [('m', op, a, b) for a in (1, 2, 7) for b in (3, 7, 8)]
    for op in range(16): cases += [('f', op, a, b) for a in (0, 7, 10, 255, 4660, -3) for b in (0, 1, 2, 3, 4)]
    chars = [0, 9, 10, 13, 32, 48, 57, 65, 70, 71, 90, 95, 97, 102, 103, 122, 127, 133, 160, 170, 233, 0x3a3, 0x661, 0x2028, 0x3000, 0x4e2d, 0xd7ff, 0xe000, 0xfffd, 0x1f600, 0x10ffff]
    for op in range(8): cases += [('c', op, a, 0) for a in chars]
    for op in range(18): cases += [('t', op, a, b) for a in range(12 if op in (4, 5, 6, 7) else 5) for b in (range(5) if op not in (4, 5, 6, 7) else (0,))]
    return cases

FN = {'s': 'probe', 'i': 'probe_iter', 'o': 'probe_opt', 'm': 'probe_map', 'f': 'probe_fmt', 'c': 'probe_char', 't': 'probe_str2'}
def ob_model_selftest(r, tier, seed):
    import subprocess
    from mirsym.engine import Panic, Limit
    d, binp = build.probe_build()
    base = ms.load_world(d, ['modelprobe'])
    cases = probe_cases()
    r.bounds = '%d concrete calls of the probe functions of /verif/modelprobe (std-only Rust: str slicing / get / is_char_boundary / insert_str / find / split / trim / char_indices on texts with multi-byte characters at every pair of byte offsets, slice and iterator chains - rev / enumerate in both orders, skip / take / zip / chain / filter / position / max_by_key / chunks / chunks_exact / drain / retain / insert / remove / split_at / binary_search / dedup / sort / join -, integer casts and checked arithmetic, Option / Result combinators, BTreeMap / IndexMap / HashMap / set operations incl. the entry API and iteration order, format! / write! with the specs the goml sources use, char classification on 31 code points, string building / comparison / parsing), each run natively (stable toolchain) and through the MIR interpreter' % len(cases)
    r.assumptions = ['not a property of goml: validates the library models of the engine (trusted base) against the real standard library; a mismatch makes every claim resting on the engine inconclusive', 'an operation the engine has no model for is counted as unmodelled, not as a mismatch (it fails closed wherever an obligation meets it)']
    p = subprocess.run([binp], input=''.join('%s %d %d %d\n' % c for c in cases), capture_output=True, text=True, timeout=300)
    native = [json.loads(l) for l in p.stdout.splitlines()]
    if len(native) != len(cases): raise Unsupported('native probe run gave %d answers for %d cases: %s' % (len(native), len(cases), p.stderr[-200:]))
    unmodelled = {}; bad = []
    for c, nat in zip(cases, native):
        W = ms.World.__new__(ms.World); W.__dict__.update(base.__dict__)
        W.res_cache = dict(base.res_cache); W.const_vals = {}; W.solver = z3.Solver(); W.queries = 0; W.solver_time = 0.0
        W.bodies_run = set(); W.models_used = set(); W.steps_total = 0; W.model_cache = {}; W.overrides = []; W.stubs = {}; W.hash_order = 'insertion'
        def entry(ex, c=c): return [int(x) for x in ex.call(FN[c[0]], [c[1], c[2], c[3]], 'modelprobe').items]
        try: res, done = ms.explore(W, entry, [], path_limit=50)
        except Unsupported as e_:
            unmodelled.setdefault(str(e_)[:120], []).append(c); continue
        except Exception as e_:
            bad.append((c, 'engine error: %s' % str(e_)[:120], nat)); continue
        r.cases += 1; r.models = sorted(set(r.models) | set(W.models_used)); r.steps += W.steps_total; r.paths += len(res)
        if len(res) != 1: bad.append((c, 'forked into %d paths' % len(res), nat)); continue
        got = [-2] if res[0].kind != 'ok' else res[0].value
        if res[0].kind != 'ok' and isinstance(res[0].value, str) and 'Unsupported' in res[0].value: unmodelled.setdefault(res[0].value[:120], []).append(c); continue
        if got == [239, 191, 189] or (0xFFFD in [] ):
            unmodelled.setdefault('opaque rendering (Debug of a structure: one replacement character, by design never compared)', []).append(c); continue
        r.nontrivial += 1
        if got != nat: bad.append((c, got, nat))
    r.notes.append('operations without a model (fail closed wherever met): %s' % {k: len(v) for k, v in unmodelled.items()})
    r.samples = [{'probe': list(c), 'result': nat} for c, nat in list(zip(cases, native))[:3]]
    r.mismatches = bad
    if bad: raise Unsupported('MODEL MISMATCH in %d of %d probes (probe functions %s), first: probe%s -> engine %s, native std %s' % (len(bad), len(cases), sorted(set((FN[b[0][0]], b[0][1] // 5 if b[0][0] == 's' else b[0][1]) for b in bad)), bad[0][0], bad[0][1], bad[0][2]))

def obligations_models(prefix):
    return [Ob(prefix + '-engine-selftest-models', 'library models of the engine agree with native std on the differential probes', ob_model_selftest, ('quick', 'thorough'), 3, {})]

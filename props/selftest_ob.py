"""Differential validation of the MIR executor itself (not a deciding step): the same interpreter on CONCRETE inputs must reproduce native behaviour.
A mismatch makes the run inconclusive (exit 2): nothing decided by the engine is believed until it is explained."""
import os, json, glob
from vlib import e2, build
from vlib.core import Ob
import mirsym as ms
from mirsym.engine import Unsupported
from props import parser_ob

def corpus_files(limit):
    fs = sorted(glob.glob(os.path.join(build.REPO, 'crates/compiler/src/tests/pipeline/*/main.gom')))
    fs = [f for f in fs if os.path.getsize(f) < 2500]
    step = max(1, len(fs) // limit)
    return fs[::step][:limit]

def ob_parser_selftest(r, tier, seed, nfiles):
    pw = parser_ob.PW(); pw.W.step_limit = 3000000
    files = corpus_files(nfiles)
    r.bounds = '%d corpus programs (< 2.5 kB) lexed by the real lexer; each token stream unchanged, and with every 7th non-trivia token deleted (error recovery paths); compared: tokens in the tree, number of diagnostics, root kind' % len(files)
    texts = [open(f).read() for f in files]
    rc, out, errt = build.run_driver('vreplay', '\n'.join(json.dumps({'fn': 'lex', 'args': [t]}) for t in texts) + '\n')
    streams = [[t[0] for t in json.loads(l)['ok']] for l in out.splitlines()]
    cases = []
    for f, ks in zip(files, streams):
        cases.append((f, 'as-is', ks))
        nt = [i for i, k in enumerate(ks) if k not in ('Whitespace', 'Comment')]
        drop = set(nt[3::7]); cases.append((f, 'every-7th-deleted', [k for i, k in enumerate(ks) if i not in drop]))
    rc, out, errt = build.run_driver('vreplay', '\n'.join(json.dumps({'fn': 'parse_kinds', 'args': [ks, pw.kinds]}) for _, _, ks in cases) + '\n', timeout=900)
    native = [json.loads(l) for l in out.splitlines()]
    if len(native) != len(cases): raise Unsupported('native driver returned %d answers for %d cases: %s' % (len(native), len(cases), errt[-200:]))
    for (f, mode, ks), nat in zip(cases, native):
        def entry(ex, ks=ks): return parser_ob.run_parser(pw, ex, ks)
        res = e2.explore(r, pw.W, entry, [])
        r.cases += 1
        if len(res) != 1: raise Unsupported('concrete run forked: %s %s' % (f, mode))
        p = res[0]
        if p.kind != 'ok':
            if 'panic' in nat: r.nontrivial += 1; continue
            raise Unsupported('SELFTEST MISMATCH %s (%s): MIR run panics (%s), native does not' % (os.path.basename(os.path.dirname(f)), mode, p.value))
        o = p.value; n = nat.get('ok')
        if n is None: raise Unsupported('SELFTEST MISMATCH %s (%s): native panics, MIR run does not' % (f, mode))
        if o['emitted'] != n['tree_tokens'] or len(o['diags']) != n['diagnostics']:
            raise Unsupported('SELFTEST MISMATCH %s (%s): tokens in tree %d vs native %d, diagnostics %d vs native %d' % (os.path.basename(os.path.dirname(f)), mode, len(o['emitted']), len(n['tree_tokens']), len(o['diags']), n['diagnostics']))
        r.nontrivial += 1
        if len(r.samples) < 3: r.samples.append({'file': os.path.basename(os.path.dirname(f)), 'mode': mode, 'tokens': len(ks), 'diagnostics': n['diagnostics']})

def ob_mangle_selftest(r, tier, seed):
    from props import c19, enc_ob
    W = e2.fresh_world(c19.CRATES)
    names = ['a', 'A1', '_x', 'go', 'func', 'interface', 'x#y', 'a::b', 'trait_impl#Show#Point#show', 'inherent#Vec#Vec[int32]#len', '1abc', '', 'é', 'a→b', 'a b', 'x/y', '(a,b)', 'Tuple_A', '_goml_x', '__', '#', 'a_#_', 'range_', 'int32', 'f.g', 'a\tb', '\x01', 'Ωmega', 'closure_env_main_0', 'main0', 'ref_int32_x']
    r.bounds = 'go_ident on %d fixed names, encode_ty on 12 fixed types: MIR execution vs native function' % len(names)
    nat = c19.native_go_ident(names)
    for n, want in zip(names, nat):
        res = e2.explore(r, W, lambda ex, n=n: ex.call('go_ident', [ms.mkstr(n)]), [])
        r.cases += 1
        got = ms.pystr(res[0].value) if len(res) == 1 and res[0].kind == 'ok' else None
        if got != want: raise Unsupported('SELFTEST MISMATCH go_ident(%r): MIR %r, native %r' % (n, got, want))
        r.nontrivial += 1
    P = lambda k, **kw: dict(k=k, **kw)
    tys = [P('TInt32'), P('TStruct', name='A'), P('TTuple', a=[P('TInt32'), P('TBool')]), P('TTuple', a=[]), P('TArray', len=3, a=[P('TString')]), P('TVec', a=[P('TStruct', name='A_B')]),
           P('TRef', a=[P('TTuple', a=[P('TInt8'), P('TUint64')])]), P('TFunc', a=[P('TInt32'), P('TBool'), P('TString')]), P('TFunc', a=[P('TUnit')]), P('TApp', base=P('TEnum', name='Option'), a=[P('TInt32')]),
           P('TParam', name='T'), P('TDyn', name='Show')]
    natv = enc_ob.native_encode(tys)
    TY = W.tt.find_adt(['tast', 'Ty'], 'compiler')
    def build_ty(d):
        from mirsym.engine import Agg, PyVec, mkbox
        mk = lambda n, *f: Agg(TY.key, TY.vindex(n), list(f)); k = d['k']
        if k in enc_ob.PRIMS: return mk(k)
        if k in ('TParam', 'TEnum', 'TStruct', 'TDyn'): return mk(k, ms.mkstr(d['name']))
        if k == 'TTuple': return mk(k, PyVec([build_ty(x) for x in d['a']]))
        if k == 'TArray': return mk(k, d['len'], mkbox(build_ty(d['a'][0])))
        if k in ('TVec', 'TRef'): return mk(k, mkbox(build_ty(d['a'][0])))
        if k == 'TFunc': return mk(k, PyVec([build_ty(x) for x in d['a'][:-1]]), mkbox(build_ty(d['a'][-1])))
        if k == 'TApp': return mk(k, mkbox(build_ty(d['base'])), PyVec([build_ty(x) for x in d['a']]))
    for d, want in zip(tys, natv):
        h = [build_ty(d)]
        res = e2.explore(r, W, lambda ex, h=h: ex.call('encode_ty', [ms.Ref(h, 0)]), [])
        r.cases += 1
        got = ms.pystr(res[0].value) if len(res) == 1 and res[0].kind == 'ok' else None
        if got != want: raise Unsupported('SELFTEST MISMATCH encode_ty(%s): MIR %r, native %r' % (json.dumps(d), got, want))
        r.nontrivial += 1
    r.samples.append({'go_ident': dict(list(zip(names, nat))[:4])})

def parser_obligations(prefix):
    return [Ob(prefix + '-engine-selftest-parser', 'MIR executor reproduces the native parser on concrete corpus token streams', ob_parser_selftest, ('quick',), 5, dict(nfiles=8)),
            Ob(prefix + '-engine-selftest-parser-all', 'MIR executor reproduces the native parser on concrete corpus token streams (all small corpus files)', ob_parser_selftest, ('thorough',), 50, dict(nfiles=60))]
def mangle_obligations(prefix):
    return [Ob(prefix + '-engine-selftest-mangle', 'MIR executor reproduces native go_ident / encode_ty on fixed inputs', ob_mangle_selftest, ('quick', 'thorough'), 1, {})]

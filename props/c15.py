"""C15 - linking only against current interfaces: what reaches the interface hash (O15.4) and the link gate (O15.3) under E2; validator kernels under E1."""
import json, re
import z3
from vlib import e2
from vlib.core import Ob, Finding
import mirsym as ms
from mirsym.engine import Agg, PyVec, Str, Ref, Opaque, PyMap, PySet, Unsupported, Panic, unbox, mkbox, mkstr, ok, err, is_sym

CRATES = ('compiler', 'common_defs', 'diagnostics', 'parser', 'ast')

# ----------------------------------------------------------------------------- O15.4 every interface field reaches the hash
class Rec:
    def __init__(s): s.items = []

def struct_skeleton(W, adt, depth=3):
    """value of a workspace struct whose fields are nested struct skeletons or opaque leaves"""
    v = adt.variants[0]; fs = []
    for fname, fty in v.fields:
        sub = None
        if fty and 'resolved_path' in fty and depth > 0:
            nm = fty['resolved_path']['path'].split('::')[-1]
            cands = [a for a in W.tt.by_name.get(nm, []) if a.crate != 'std' and a.kind == 'struct' and a.variants[0].kind == 'struct']
            if len(cands) == 1: sub = struct_skeleton(W, cands[0], depth - 1)
        fs.append(sub if sub is not None else Opaque('leaf:%s.%s' % (adt.name, fname)))
    return Agg(adt.key, 0, fs)

def serializer_overrides(W):
    def record(ex, ty, v):
        v = ex.deref(v)
        t = ty.strip().lstrip('&').strip()
        if isinstance(v, Agg) and re.match(r'[\w:]+$', t):
            ref = W.resolve('<%s as Serialize>::serialize' % t, 'compiler')
            if ref is not None:
                r_ = Rec(); h = [v]; ex.run_body(ref, [Ref(h, 0), r_]); return ('struct', r_.items)
        return ('leaf', t)
    def ov(f, g):
        if 'Serializer>::serialize_struct' in f:
            def m_ser_struct(ex, f_, a): a[0].items.append(('begin', ms.pystr(ex.deref(a[1])), a[2])); return ok(a[0])
            return m_ser_struct
        if 'SerializeStruct>::serialize_field' in f:
            def m_ser_field(ex, f_, a):
                from mirsym.models import generic_args
                ex.deref(a[0]).items.append((ms.pystr(ex.deref(a[1])), record(ex, generic_args(f_)[0], a[2]))); return ok(ms.UNIT)
            return m_ser_field
        if f.endswith('SerializeStruct>::end'):
            def m_ser_end(ex, f_, a): return ok(a[0])
            return m_ser_end
        if g in ('to_vec', 'serde_json::to_vec', 'serde_json::ser::to_vec'):
            def m_to_vec(ex, f_, a):
                from mirsym.models import generic_args
                t = generic_args(f_)[0]; ref = W.resolve('<%s as Serialize>::serialize' % t, 'compiler')
                if ref is None: raise Unsupported('no Serialize impl body for ' + t)
                r_ = Rec(); ex.run_body(ref, [a[0], r_]); return ok(r_)
            return m_to_vec
        if 'as Digest>::digest' in f or g.endswith('::digest'):
            def m_digest(ex, f_, a): return a[0]
            return m_digest
        if g in ('encode', 'hex::encode'):
            def m_hex(ex, f_, a): return a[0]
            return m_hex
        return None
    return ov

def ob_hash_view(r, tier, seed):
    W = e2.fresh_world(CRATES); W.overrides = [serializer_overrides(W)]
    IU = W.tt.find_adt(['artifact', 'InterfaceUnit'], 'compiler')
    r.bounds = 'structural: one execution per Serialize impl; every struct type reachable from InterfaceUnit through struct-typed fields (depth <= 3)'
    r.assumptions = ['serde_json (canonical rendering of each serialized value), SHA-256 and hex are pass-through / trusted: the obligation is that every declared field is handed to the serializer',
                     'enum-typed and container-typed fields are leaves here (their own derived Serialize impls are not unfolded)']
    def entry(ex):
        u = struct_skeleton(W, IU)
        names = [f[0] for f in IU.variants[0].fields]
        u.fields[names.index('format_version')] = z3.Int('fv'); u.fields[names.index('compiler_abi')] = z3.Int('abi')
        u.fields[names.index('package')] = mkstr('P'); u.fields[names.index('interface_hash')] = mkstr('h')
        h = [u]
        rec = ex.call('artifact::InterfaceUnit::compute_hash', [Ref(h, 0)])
        return rec.items
    res = e2.explore(r, W, entry, [])
    if len(res) != 1 or res[0].kind != 'ok': raise Unsupported('compute_hash: unexpected exploration result %s' % [(p.kind, p.value) for p in res][:2])
    items = res[0].value
    problems = []
    def check_struct(adt, recorded, path):
        declared = [f[0] for f in adt.variants[0].fields]
        got = [i[0] for i in recorded if i[0] != 'begin']
        r.cases += 1
        skip = ['interface_hash'] if adt.name == 'InterfaceUnit' else []
        missing = [d for d in declared if d not in got and d not in skip]
        if missing: problems.append('%s: declared fields not handed to the hasher: %s' % (path, missing))
        for it in recorded:
            name, val = it[0], it[1]
            if name == 'begin' or val is None or val[0] == 'leaf': continue
            if val[0] == 'struct':
                fty = dict(adt.variants[0].fields).get(name)
                if fty is None and adt.name == 'InterfaceUnit': fty = dict(IU.variants[0].fields).get(name)
                t = fty
                while t and 'borrowed_ref' in t: t = t['borrowed_ref']['type']
                if t and 'resolved_path' in t:
                    nm = t['resolved_path']['path'].split('::')[-1]
                    cands = [a for a in W.tt.by_name.get(nm, []) if a.crate != 'std' and a.kind == 'struct']
                    if len(cands) == 1: check_struct(cands[0], val[1], path + '.' + name)
    check_struct(IU, items, 'InterfaceUnit')
    r.nontrivial = r.cases
    r.samples = [{'hashed fields': [i[0] for i in items if i[0] != 'begin']}] + [{'nested ' + it[0]: [i[0] for i in it[1][1] if i[0] != 'begin']} for it in items if it[0] != 'begin' and it[1] and it[1][0] == 'struct'][:3]
    for pr in problems:
        r.findings.append(Finding('field-not-hashed', pr, {}, True, 'read from the derive-generated Serialize impl (MIR of the current tree)'))

# ----------------------------------------------------------------------------- O15.3 the link gate
def ob_link_gate(r, tier, seed, pkgs, dup=None):
    W = e2.fresh_world(CRATES)
    CU = W.tt.find_adt(['artifact', 'CoreUnit'], 'compiler'); IU = W.tt.find_adt(['artifact', 'InterfaceUnit'], 'compiler')
    CF = W.tt.find_adt(['core', 'File'], 'compiler'); FN = W.tt.find_adt(['core', 'Fn'], 'compiler')
    class Reached(Exception): pass
    W.stubs['compile_error'] = lambda ex, a: Opaque('CompilationError')
    def topo_stub(ex, a): raise Panic('REACHED-LINK')
    W.stubs['separate::topo_sort'] = topo_stub; W.stubs['topo_sort'] = topo_stub
    names = pkgs; cand = names + ['Zmissing']
    present = {p: z3.Bool('present_%s' % p) for p in names}
    dep = {(p, q): z3.Bool('dep_%s_%s' % (p, q)) for p in names for q in cand if p != q}
    want = {(p, q): z3.Int('want_%s_%s' % (p, q)) for p in names for q in cand if p != q}
    own = {p: z3.Int('hash_%s' % p) for p in names}
    hasmain = z3.Bool('main_has_main'); dupb = z3.Bool('second_core_of_%s' % dup); own2 = z3.Int('hash2_%s' % dup)
    ass = [z3.Or(v == 49, v == 50) for v in list(want.values()) + list(own.values()) + [own2]]
    r.bounds = 'cores for any subset of packages %s; every dependency bit symbolic (also on a package that is not provided); interface hashes and expected hashes symbolic over two values; Main with or without a main function' % names + ('' if dup is None else '; optionally a second core of package %s whose interface hash is equal to or different from the first (symbolic)' % dup)
    r.assumptions = ['exploration is cut at the call to separate::topo_sort (the gate is everything before it); compile_error message formatting stubbed',
                     'a package provided twice must be rejected: at most one of two cores of a package is the one its current sources produce (an older body would be linked silently otherwise)',
                     'oracle: the gate may be passed iff cores are non-empty, Main is present with a main function, and every deps entry names a provided package whose interface_hash equals the expected hash']
    def unit(ex, p, deps_list, second=False):
        iu_fields = []
        for fname, fty in IU.variants[0].fields:
            if fname == 'interface_hash': iu_fields.append(Str([own2 if second else own[p]]))
            elif fname == 'package': iu_fields.append(mkstr(p))
            else: iu_fields.append(Opaque('iu.' + fname))
        m = PyMap('btree')
        for q in deps_list: m.keys.append(mkstr(q)); m.vals.append(Str([want[(p, q)]]))
        tops = PyVec([])
        if p == 'Main' and ex.branch_bool(hasmain):
            f = []
            for fname, fty in FN.variants[0].fields: f.append(mkstr('main') if fname == 'name' else Opaque('fn.' + fname))
            tops.items.append(Agg(FN.key, 0, f))
        cu = []
        for fname, fty in CU.variants[0].fields:
            cu.append({'package': mkstr(p), 'interface': Agg(IU.key, 0, iu_fields), 'core_ir': Agg(CF.key, 0, [tops]), 'deps': m}.get(fname, Opaque('cu.' + fname)))
        return Agg(CU.key, 0, cu)
    def entry(ex):
        cores = []; info = {}
        for p in names:
            if ex.branch_bool(present[p]):
                dl = [q for q in cand if q != p and ex.branch_bool(dep[(p, q)])]
                info[p] = dl; cores.append(unit(ex, p, dl))
                if dup == p and ex.branch_bool(dupb):      # the same package a second time (its interface hash equal or different: symbolic)
                    cores.append(unit(ex, p, dl, second=True)); ex.notes['dup'] = True
        try:
            res = ex.call('pipeline::separate::link_cores', [PyVec(cores)])
        except Panic as e:
            if 'REACHED-LINK' in str(e): return info, 'passed'
            raise
        if res.idx == 0: raise Unsupported('link_cores returned Ok without reaching topo_sort')
        return info, 'rejected'
    res = e2.explore(r, W, entry, ass)
    found = {}
    for p in res:
        r.cases += 1
        if p.kind != 'ok':
            found.setdefault('panic', 'link_cores panics: %s' % p.value); continue
        info, verdict = p.value
        okf = [z3.BoolVal(bool(info)), z3.BoolVal('Main' in info), hasmain if 'Main' in info else z3.BoolVal(False)]
        for pk, dl in info.items():
            for q in dl: okf.append(z3.BoolVal(False) if q not in info else want[(pk, q)] == own[q])
        if (p.notes or {}).get('dup'): okf.append(z3.BoolVal(False))      # a package provided twice: at most one of the two cores is the current one
        allowed = z3.And(*okf)
        m, dt = e2.check(ass + p.pc + [allowed if verdict == 'rejected' else z3.Not(allowed)]); r.queries += 1; r.solver_s += dt
        r.nontrivial += 1
        if m is not None:
            w = {'provided': {k: v for k, v in info.items()}, 'hashes': {k: chr(e2.mval(m, v)) for k, v in own.items() if k in info},
                 'expected': {'%s->%s' % k: chr(e2.mval(m, v)) for k, v in want.items() if k[0] in info and k[1] in info[k[0]]}}
            key = ('duplicate-core-accepted' if (p.notes or {}).get('dup') else 'stale-link-accepted') if verdict == 'passed' else 'valid-link-rejected'
            if (p.notes or {}).get('dup'): w['second_core_of'] = dup; w['second_hash'] = chr(e2.mval(m, own2))
            found.setdefault(key, ('link gate %s although the oracle says the opposite: %s' % (verdict, json.dumps(w)), w))
        elif len(r.samples) < 3: r.samples.append({'provided': info, 'verdict': verdict})
    for key, v in found.items():
        what, w = v if isinstance(v, tuple) else (v, {})
        r.findings.append(Finding(key, what, w, True, 'verdict of the real link_cores MIR on these cores'))

def obligations():
    obs = [Ob('O15.4-hash-view', 'every declared interface field is handed to the hasher', ob_hash_view, ('quick', 'thorough'), 1, {}),
           Ob('O15.3-link-gate-2', 'link gate: passes iff every dependency hash matches (Main + A)', ob_link_gate, ('quick', 'thorough'), 2, dict(pkgs=['Main', 'A'])),
           Ob('O15.6-link-duplicate-core', 'link gate: a package provided twice is rejected, whatever the interface hash of the second core (Main + A)', ob_link_gate, ('quick', 'thorough'), 3, dict(pkgs=['Main', 'A'], dup='A')),
           Ob('O15.3-link-gate-3', 'link gate: passes iff every dependency hash matches (Main + A + B)', ob_link_gate, ('quick', 'thorough'), 10, dict(pkgs=['Main', 'A', 'B']))]
    try:
        from props import e1_obs
        obs += e1_obs.c15_obligations()
    except ImportError: pass
    return obs

META = {
    'level': 'other',
    'explanation': 'Bounded solver-checked obligations over the real artifact and link code: (a) InterfaceUnit::compute_hash and the derive-generated Serialize impls (MIR of the current tree) are executed against a recording serializer - every declared field of InterfaceUnit except interface_hash, and every field of the nested export structs, must be handed to the hasher; (b) link_cores is executed on symbolic sets of cores (presence, dependency maps and two-valued hashes are solver variables) up to the call to topo_sort: z3 decides on every path whether the gate verdict can differ from "all dependency hashes match and Main/main exist"; (c) E1: CoreUnit::validate is the conjunction it must be.',
    'assumptions': ['collision freedom of SHA-256 and canonical serde_json output are trusted', 'version checks on the interface read path and edit histories as such are outside'],
    'trusted_base': ['mirsym MIR interpreter', 'recording serializer model', 'library models listed per obligation', 'z3'],
}

# ----------------------------------------------------------------------------- O15.5 interface files written by another format version / ABI are rejected when read
def call_site_extra_args(W, fname, nfixed):
    """constant arguments beyond the first `nfixed` that the real callers (MIR of the current tree) pass to `fname`; one tuple per distinct combination"""
    from mirsym import mirtext as mt
    text = W.files['compiler'].text; out = {}
    for m in re.finditer(r'^fn ([^\n(]+)\(|= %s\(([^\n]*)\) -> \[' % re.escape(fname), text, re.M):
        if m.group(1) is not None: cur = m.group(1); continue
        vals = []
        for x in mt.split_top(m.group(2))[nfixed:]:
            x = x.strip()
            if x not in ('const true', 'const false'): raise Unsupported('a caller of %s passes a non-constant extra argument `%s`' % (fname, x))
            vals.append(x == 'const true')
        out.setdefault(tuple(vals), []).append(cur)
    if not out: raise Unsupported('no call site of %s found in the MIR' % fname)
    return out

def replay_tampered_interface():
    """real CLI: build package A, change an exported signature in A.interface without updating interface_hash, then `check` and `build` a client against it"""
    import tempfile, subprocess, shutil, os
    from vlib import build
    d = tempfile.mkdtemp(prefix='vf-c15t-')
    try:
        os.makedirs(os.path.join(d, 'A')); os.makedirs(os.path.join(d, 'out')); os.makedirs(os.path.join(d, 'm'))
        open(os.path.join(d, 'A', 'lib.gom'), 'w').write('package A\nfn a_f() -> int32 { 1 }\n')
        open(os.path.join(d, 'm', 'main.gom'), 'w').write('package Main\nimport A\nfn main() -> unit { string_println(int32_to_string(A::a_f())) }\n')
        b = build.compiler_bin()
        r1 = subprocess.run([b, 'build', '--package', 'A', '--input', os.path.join(d, 'A', 'lib.gom'), '--output', os.path.join(d, 'out', 'A')], capture_output=True, text=True, timeout=60)
        ip = os.path.join(d, 'out', 'A.interface')
        if r1.returncode != 0 or not os.path.exists(ip): return False, 'could not build A: ' + (r1.stdout + r1.stderr)[-200:]
        txt = open(ip).read()
        if '"TInt32"' not in txt: return False, 'unexpected interface layout'
        open(ip, 'w').write(txt.replace('"TInt32"', '"TBool"'))
        acc = []
        for cmd, outp in (('check', os.path.join(d, 'out', 'Main.interface')), ('build', os.path.join(d, 'out', 'Main'))):
            r2 = subprocess.run([b, cmd, '--package', 'Main', '--input', os.path.join(d, 'm', 'main.gom'), '--interface-path', os.path.join(d, 'out'), '--output', outp], capture_output=True, text=True, timeout=60)
            if 'invalid interface_hash' not in (r2.stdout + r2.stderr): acc.append('%s (exit %d: %s)' % (cmd, r2.returncode, (r2.stdout + r2.stderr)[-100:].replace('\n', ' | ')))
        return bool(acc), 'A.interface with a changed signature and the old interface_hash: not rejected as an invalid hash by `compiler %s`' % ', '.join(acc) if acc else 'both `check` and `build` reject the altered interface'
    finally:
        shutil.rmtree(d, ignore_errors=True)

def ob_interface_read(r, tier, seed):
    W = e2.fresh_world(CRATES)
    extras = call_site_extra_args(W, 'load_interface_from_paths', 2)
    IU = W.tt.find_adt(['artifact', 'InterfaceUnit'], 'compiler')
    fv, abi = z3.Int('format_version'), z3.Int('compiler_abi'); hchar = z3.Int('hash_char'); pchar = z3.Int('pkg_char')
    ass = [fv >= 0, fv < 2**32, abi >= 0, abi < 2**32, z3.Or(hchar == ord('H'), hchar == ord('X')), z3.Or(pchar == ord('A'), pchar == ord('B'))]
    r.bounds = 'one candidate interface file for package "A": format_version and compiler_abi any u32, stored hash equal or different from the recomputed one, declared package A or B; load_interface_from_paths is called with each combination of further constant arguments its real callers pass: %s' % {str(k): sorted(set(v)) for k, v in extras.items()}
    r.assumptions = ['file system and JSON parsing are environment stubs (the file exists and parses to the symbolic InterfaceUnit); InterfaceUnit::compute_hash stubbed to a constant (hash correctness is O15.4 / SHA-256)',
                     'oracle: a unit may be accepted only if its package matches, its hash validates and format_version / compiler_abi equal the compiler\'s constants']
    for n in list(W.methods.get('compute_hash', [])): W.stubs[n[1]] = lambda ex, a: mkstr('H')
    W.stubs['compile_error'] = lambda ex, a: Opaque('CompilationError'); W.opaque_int_format = True      # message text is not checked
    def ov(f, g):
        if g.endswith('Path::exists'):
            def m_exists(ex, f_, a): return True
            return m_exists
        if g.endswith('fs::read_to_string') or g == 'read_to_string':
            def m_read(ex, f_, a): return ok(mkstr('{json}'))
            return m_read
        if g.endswith('from_str') and 'InterfaceUnit' in f:
            def m_from_json(ex, f_, a):
                fields = []
                for fname, fty in IU.variants[0].fields:
                    fields.append({'format_version': fv, 'compiler_abi': abi, 'package': Str([pchar]), 'interface_hash': Str([hchar])}.get(fname, Opaque('iu.' + fname)))
                return ok(Agg(IU.key, 0, fields))
            return m_from_json
        return None
    W.overrides = [ov]
    FV = None
    def entry(ex):
        paths = PyVec([Opaque('dir')])
        extra = ex.choose([(True, e_) for e_ in sorted(extras)]) if len(extras) > 1 else next(iter(extras))
        res = ex.call('pipeline::separate::load_interface_from_paths', [mkstr('A'), paths] + list(extra))
        ex.notes['extra'] = extra
        return res.idx == 0
    res = e2.explore(r, W, entry, ass)
    consts = {}
    for nm in ('FORMAT_VERSION', 'COMPILER_ABI'):
        refc = W.const_ref('artifact::' + nm, 'compiler'); b = W.body(refc)
        consts[nm] = b.value[1][1] if b.value is not None else None
    if None in consts.values(): raise Unsupported('version constants not found')
    for p in res:
        r.cases += 1
        if p.kind != 'ok': r.findings.append(Finding('panic', 'load_interface_from_paths panics: %s' % p.value, {}, True)); continue
        accepted = p.value
        good = z3.And(fv == consts['FORMAT_VERSION'], abi == consts['COMPILER_ABI'], hchar == ord('H'), pchar == ord('A'))
        m, dt = e2.check(ass + p.pc + [z3.Not(good) if accepted else good]); r.queries += 1; r.solver_s += dt
        r.nontrivial += 1
        if m is not None:
            w = {'format_version': e2.mval(m, fv), 'compiler_abi': e2.mval(m, abi), 'hash_valid': chr(e2.mval(m, hchar)) == 'H', 'package': chr(e2.mval(m, pchar))}
            if p.notes.get('extra'): w['further_arguments'] = list(p.notes['extra']); w['callers'] = sorted(set(extras.get(tuple(p.notes['extra']), [])))
            key = 'foreign-version-interface-accepted' if accepted and (w['format_version'] != consts['FORMAT_VERSION'] or w['compiler_abi'] != consts['COMPILER_ABI']) else ('bad-interface-accepted' if accepted else 'good-interface-rejected')
            if not any(f.key == key for f in r.findings):
                ok_, detail = True, 'verdict of the real load_interface_from_paths MIR on this unit'
                if key == 'bad-interface-accepted' and not w['hash_valid']: ok_, detail = replay_tampered_interface()
                if key == 'foreign-version-interface-accepted': ok_, detail = replay_foreign_interface(w['format_version'] if w['format_version'] != consts['FORMAT_VERSION'] else consts['FORMAT_VERSION'], w['compiler_abi'])
                r.findings.append(Finding(key, 'interface file %s: %s (compiler constants: format %d, abi %d)' % ('accepted' if accepted else 'rejected', json.dumps(w), consts['FORMAT_VERSION'], consts['COMPILER_ABI']), w, ok_, detail))
        elif len(r.samples) < 2: r.samples.append({'accepted': accepted})

def replay_foreign_interface(fmt, abi):
    """real CLI: build package A's interface, rewrite it with other version numbers and a self-consistent hash (native driver), then
    check a package that imports A against it: acceptance reproduces the finding"""
    import tempfile, subprocess, shutil, os
    from vlib import build
    d = tempfile.mkdtemp(prefix='vf-c15-')
    try:
        os.makedirs(os.path.join(d, 'A')); os.makedirs(os.path.join(d, 'out'))
        open(os.path.join(d, 'A', 'lib.gom'), 'w').write('package A\nfn a_f() -> int32 { 1 }\n')
        open(os.path.join(d, 'main.gom'), 'w').write('package Main\nimport A\nfn main() -> unit { string_println(int32_to_string(A::a_f())) }\n')
        b = build.compiler_bin()
        r1 = subprocess.run([b, 'check', '--package', 'A', '--input', os.path.join(d, 'A', 'lib.gom'), '--output', os.path.join(d, 'out', 'A.interface')], capture_output=True, text=True, timeout=60)
        if r1.returncode != 0: return False, 'could not produce the interface of A: ' + (r1.stdout + r1.stderr)[-200:]
        rc, out, errt = build.run_driver('vreplay', json.dumps({'fn': 'retag_interface', 'args': [open(os.path.join(d, 'out', 'A.interface')).read(), fmt, abi]}) + '\n')
        txt = json.loads(out.splitlines()[0])['ok']
        open(os.path.join(d, 'out', 'A.interface'), 'w').write(txt)
        r2 = subprocess.run([b, 'check', '--package', 'Main', '--input', os.path.join(d, 'main.gom'), '--interface-path', os.path.join(d, 'out'), '--output', os.path.join(d, 'out', 'Main.interface')], capture_output=True, text=True, timeout=60)
        return r2.returncode == 0, '`compiler check --package Main` against A.interface rewritten to format_version=%d compiler_abi=%d (hash self-consistent): exit %d %s' % (fmt, abi, r2.returncode, (r2.stdout + r2.stderr)[-160:].replace('\n', ' | '))
    finally:
        shutil.rmtree(d, ignore_errors=True)

_obl = obligations
def obligations():
    obs = _obl()
    obs.insert(3, Ob('O15.5-interface-read', 'an interface file is accepted only with the compiler\'s format version / ABI, matching package and valid hash', ob_interface_read, ('quick', 'thorough'), 1, {}))
    return obs

# ----------------------------------------------------------------------------- O13.6 (registered under C13) the link error does not depend on hash iteration order
def ob_link_error_order(r, tier, seed):
    W = e2.fresh_world(CRATES); W.hash_order = 'symbolic'
    CU = W.tt.find_adt(['artifact', 'CoreUnit'], 'compiler'); IU = W.tt.find_adt(['artifact', 'InterfaceUnit'], 'compiler')
    CF = W.tt.find_adt(['core', 'File'], 'compiler'); FN = W.tt.find_adt(['core', 'Fn'], 'compiler'); CE = W.tt.find_adt(['pipeline', 'pipeline', 'CompilationError'], 'compiler')
    DG = W.tt.find_adt(['diagnostics', 'Diagnostic'], 'diagnostics')
    r.bounds = 'cores for Main, B and A; A has interface hash h2; Main and B were both built against h1 (two stale packages); iteration order of every std HashMap/HashSet is a symbolic permutation'
    r.assumptions = ['oracle: link_cores returns the same error (same message) on every feasible execution']
    def unit(p, own, deps, with_main=False):
        iu = [{'interface_hash': mkstr(own), 'package': mkstr(p)}.get(fname, Opaque('iu.' + fname)) for fname, _t in IU.variants[0].fields]
        m = PyMap('btree')
        for q, hsh in deps: m.keys.append(mkstr(q)); m.vals.append(mkstr(hsh))
        tops = PyVec([])
        if with_main: tops.items.append(Agg(FN.key, 0, [mkstr('main') if fname == 'name' else Opaque('fn.' + fname) for fname, _t in FN.variants[0].fields]))
        return Agg(CU.key, 0, [{'package': mkstr(p), 'interface': Agg(IU.key, 0, iu), 'core_ir': Agg(CF.key, 0, [tops]), 'deps': m}.get(fname, Opaque('cu.' + fname)) for fname, _t in CU.variants[0].fields])
    def entry(ex):
        cores = [unit('Main', 'hm', [('A', 'h1'), ('B', 'hb')], True), unit('B', 'hb', [('A', 'h1')]), unit('A', 'h2', [])]
        res = ex.call('pipeline::separate::link_cores', [PyVec(cores)])
        if res.idx == 0: return 'Ok'
        ce = res.fields[0]; diags = ce.fields[0]
        items = diags.fields[0].items if isinstance(diags, Agg) else diags.items
        return tuple(ms.pystr(d.fields[[f[0] for f in DG.variants[0].fields].index('message')]) for d in items)
    res = e2.explore(r, W, entry, [])
    outs = set()
    for p in res:
        r.cases += 1
        if p.kind != 'ok': raise Unsupported('link_cores panicked: %s' % p.value)
        outs.add(p.value)
    r.nontrivial = len(res)
    if len(outs) > 1:
        ok_, detail = replay_link_error()
        r.findings.append(Finding('link-error-depends-on-hash-iteration', 'with two stale packages link_cores reports a different one depending on HashMap iteration order: %s' % sorted(map(str, outs))[:3], {'messages': [list(o) if isinstance(o, tuple) else o for o in sorted(outs, key=str)]}, ok_, detail))
    else: r.samples.append({'result': list(next(iter(outs))) if outs and isinstance(next(iter(outs)), tuple) else str(outs)})

def replay_link_error(runs=24):
    from vlib import build
    import os, subprocess, tempfile, shutil
    """real CLI: Main imports A and B, B imports A; A's interface changes and only A is rebuilt -> Main and B are both stale"""
    import re as _re
    B = build.compiler_bin(); d = tempfile.mkdtemp(prefix='vf-c13-')
    try:
        w = lambda n, t: open(os.path.join(d, n), 'w').write(t)
        os.makedirs(os.path.join(d, 'out'))
        w('a.gom', 'package A\nfn fa() -> int32 { 1 }\n'); w('b.gom', 'package B\nimport A\nfn fb() -> int32 { A::fa() + 1 }\n')
        w('main.gom', 'package Main\nimport A\nimport B\nfn main() -> unit { string_println(int32_to_string(A::fa() + B::fb())) }\n')
        run = lambda *a: subprocess.run([B] + list(a), capture_output=True, text=True, timeout=60, cwd=d)
        run('build', '--package', 'A', '--input', os.path.join(d, 'a.gom'), '--output', 'out/A')
        run('build', '--package', 'B', '--input', os.path.join(d, 'b.gom'), '--interface-path', 'out', '--output', 'out/B')
        run('build', '--package', 'Main', '--input', os.path.join(d, 'main.gom'), '--interface-path', 'out', '--output', 'out/Main')
        w('a.gom', 'package A\nfn fa() -> int32 { 1 }\nfn fa2() -> int32 { 1 }\n')
        run('build', '--package', 'A', '--input', os.path.join(d, 'a.gom'), '--output', 'out/A')
        seen = set()
        for _ in range(runs):
            p = run('link', '--input', 'out/Main.core', 'out/A.core', 'out/B.core', '--output', 'out/main.go')
            m = _re.search(r'package (\w+) expects interface_hash', p.stdout + p.stderr); seen.add(m.group(1) if m else (p.stdout + p.stderr)[:80])
    finally: shutil.rmtree(d, ignore_errors=True)
    return len(seen) > 1, '%d runs of `compiler link` on the stale project name the packages %s' % (runs, sorted(seen))

def obligations_c13():
    return [Ob('O13.6-link-error-order', 'the error reported by link_cores for two stale packages is independent of hash iteration order', ob_link_error_order, ('quick', 'thorough'), 3, {})]


# ----------------------------------------------------------------------------- O13.8 (registered under C13) nothing that is serialized into an interface file iterates in per-process order
def ob_interface_containers(r, tier, seed):
    W = e2.fresh_world(CRATES); W.overrides = [serializer_overrides(W)]
    IU = W.tt.find_adt(['artifact', 'InterfaceUnit'], 'compiler')
    r.bounds = 'structural: one execution of the derived Serialize impls reachable from InterfaceUnit (struct-typed fields, depth <= 3); the type of every field handed to the serializer is read from the executed code'
    r.assumptions = ['serde serialises a std HashMap / HashSet by iterating it, i.e. in RandomState order, different in every process; IndexMap / BTreeMap / Vec are ordered',
                     'oracle: no field handed to the serializer is a std HashMap or HashSet (the interface file and the interface hash would differ between two runs on the same sources)']
    def entry(ex):
        u = struct_skeleton(W, IU); names = [f[0] for f in IU.variants[0].fields]
        u.fields[names.index('format_version')] = 1; u.fields[names.index('compiler_abi')] = 1
        u.fields[names.index('package')] = mkstr('P'); u.fields[names.index('interface_hash')] = mkstr('h')
        h = [u]
        return ex.call('artifact::InterfaceUnit::compute_hash', [Ref(h, 0)]).items
    res = e2.explore(r, W, entry, [])
    if len(res) != 1 or res[0].kind != 'ok': raise Unsupported('compute_hash: unexpected exploration result')
    bad = []; seen = []
    def walk(items, path):
        for it in items:
            if it[0] == 'begin' or it[1] is None: continue
            r.cases += 1
            if it[1][0] == 'struct': walk(it[1][1], path + '.' + it[0])
            else:
                t = it[1][1] or ''; seen.append((path + '.' + it[0], t))
                if re.search(r'(^|[^A-Za-z])Hash(Map|Set)<', t) and 'IndexMap' not in t.split('<')[0]: bad.append((path + '.' + it[0], t))
    walk(res[0].value, 'InterfaceUnit')
    r.nontrivial = r.cases
    r.samples = [{'field': p_, 'type': t[:80]} for p_, t in seen if '<' in t][:4]
    for p_, t in bad[:1]:
        ok_, detail = True, 'field type read from the executed derived Serialize impl (MIR of the current tree)'
        try:
            import subprocess, tempfile, shutil, os
            from vlib import build
            d = tempfile.mkdtemp(prefix='vf-c13-')
            exts = [('strings', 'ToUpper', 'upper', 's: string', 'string'), ('strings', 'ToLower', 'lower', 's: string', 'string'), ('strconv', 'Itoa', 'itoa', 'n: int32', 'string'),
                    ('os', 'Getenv', 'getenv', 's: string', 'string'), ('path', 'Base', 'base_name', 's: string', 'string'), ('html', 'EscapeString', 'html_escape', 's: string', 'string'),
                    ('unicode/utf8', 'RuneCountInString', 'rune_count', 's: string', 'int32')]
            open(os.path.join(d, 'sys.gom'), 'w').write('package Sys\n' + ''.join('extern "go" "%s" "%s" %s(%s) -> %s\n' % e_ for e_ in exts) + 'fn shout(s: string) -> string { upper(s) }\n')
            os.makedirs(os.path.join(d, 'out')); outs = set(); errs = ''
            for i in range(12):
                o_ = os.path.join(d, 'out', 'Sys%d.interface' % i)
                p2 = subprocess.run([build.compiler_bin(), 'check', '--package', 'Sys', '--input', os.path.join(d, 'sys.gom'), '--output', o_], capture_output=True, text=True, timeout=60, cwd=d)
                if not os.path.exists(o_): errs = (p2.stderr or p2.stdout)[:200]; continue
                outs.add(open(o_).read())
            if not outs: raise RuntimeError('no interface file written: ' + errs)
            shutil.rmtree(d, ignore_errors=True)
            ok_ = len(outs) > 1; detail = '12 runs of `compiler check` on a package with seven extern functions write %d different interface files' % len(outs)
        except Exception as e: detail += ' (CLI replay failed: %s)' % str(e)[:120]
        r.findings.append(Finding('interface-field-in-hash-order', 'the serialized interface contains the field %s of type %s: its entries are written in per-process hash order' % (p_, t[:100]), {'field': p_, 'type': t}, ok_, detail))

_obl_c13c = obligations_c13
def obligations_c13():
    return _obl_c13c() + [Ob('O13.8-interface-containers', 'no std HashMap / HashSet is serialized into an interface file', ob_interface_containers, ('quick', 'thorough'), 2, {})]

# ----------------------------------------------------------------------------- O15.7 every part of a core file is covered by its validation
def replay_altered_core():
    """real CLI: build Main, alter a string literal inside core_ir of Main.core, link"""
    import tempfile, subprocess, shutil, os
    from vlib import build
    d = tempfile.mkdtemp(prefix='vf-c15c-')
    try:
        os.makedirs(os.path.join(d, 'out'))
        open(os.path.join(d, 'main.gom'), 'w').write('package Main\nfn main() -> unit { let _ = string_println("hello"); () }\n')
        b = build.compiler_bin()
        r1 = subprocess.run([b, 'build', '--package', 'Main', '--input', os.path.join(d, 'main.gom'), '--output', os.path.join(d, 'out', 'Main')], capture_output=True, text=True, timeout=60)
        cp = os.path.join(d, 'out', 'Main.core')
        if r1.returncode != 0 or not os.path.exists(cp): return False, 'could not build Main: ' + (r1.stdout + r1.stderr)[-200:]
        txt = open(cp).read()
        if 'hello' not in txt: return False, 'unexpected core layout'
        open(cp, 'w').write(txt.replace('hello', 'HACKED'))
        r2 = subprocess.run([b, 'link', '--input', cp, '--output', os.path.join(d, 'out', 'b.go')], capture_output=True, text=True, timeout=60)
        go = open(os.path.join(d, 'out', 'b.go')).read() if os.path.exists(os.path.join(d, 'out', 'b.go')) else ''
        return r2.returncode == 0 and 'HACKED' in go, '`compiler build` Main, replace "hello" by "HACKED" inside core_ir of Main.core, `compiler link`: exit %d, the emitted Go %s' % (r2.returncode, 'prints HACKED' if 'HACKED' in go else 'does not contain the altered text')
    finally:
        shutil.rmtree(d, ignore_errors=True)

def ob_core_coverage(r, tier, seed):
    W = e2.fresh_world(CRATES)
    CU = W.tt.find_adt(['artifact', 'CoreUnit'], 'compiler'); IU = W.tt.find_adt(['artifact', 'InterfaceUnit'], 'compiler')
    r.bounds = 'CoreUnit::validate on a core whose version fields, package, interface and deps are the valid ones; each remaining field of CoreUnit (read from the type: %s) is an opaque value that cannot be inspected without the run failing' % [f[0] for f in CU.variants[0].fields]
    r.assumptions = ['InterfaceUnit::validate_hash stubbed to true (checked by O15.2 / O15.4)', 'oracle (C15: core files that were altered are rejected): validate() cannot return true without having inspected every field of the core file; a field it never reads can be altered freely']
    for nm in list(W.methods.get('validate_hash', [])): W.stubs[nm[1]] = lambda ex, a: True
    consts = {}
    def entry(ex):
        fv = ex.call('artifact::InterfaceUnit::new', [mkstr('Main'), Opaque('exports'), Opaque('hir_interface'), PyMap('btree')]) if False else None
        iu = []
        for fname, fty in IU.variants[0].fields:
            iu.append({'package': mkstr('Main'), 'deps': PyMap('btree'), 'interface_hash': mkstr('h')}.get(fname, Opaque('iu.' + fname)))
        # the two version constants: taken from a core built by the real constructor
        cu0 = ex.call('artifact::CoreUnit::new', [mkstr('Main'), Agg(IU.key, 0, list(iu)), Opaque('core_ir0')])
        names = [f[0] for f in CU.variants[0].fields]; f0 = dict(zip(names, cu0.fields))
        iu2 = list(iu)
        for i, (fname, fty) in enumerate(IU.variants[0].fields):
            if fname in ('format_version', 'compiler_abi'): iu2[i] = f0[fname]
        cu = [{'format_version': f0['format_version'], 'compiler_abi': f0['compiler_abi'], 'package': mkstr('Main'), 'interface': Agg(IU.key, 0, iu2), 'deps': PyMap('btree')}.get(n, Opaque('cu.' + n)) for n in names]
        h = {0: Agg(CU.key, 0, cu)}
        res = ex.call('artifact::CoreUnit::validate', [Ref(h, 0)])
        if not isinstance(res, bool): res = ex.branch_bool(res)
        return bool(res), [n for n, v in zip(names, cu) if isinstance(v, Opaque)]
    res = e2.explore(r, W, entry, [])
    for p in res:
        r.cases += 1
        if p.kind != 'ok':
            # an Unsupported access to an opaque field would mean the field is inspected: that is what the oracle asks for
            r.notes.append('path ended with %s' % str(p.value)[:200]); continue
        ok_, opaque = p.value; r.nontrivial += 1
        if ok_ and opaque:
            try: rp, detail = replay_altered_core()
            except Exception as e_: rp, detail = False, 'replay failed: %s' % str(e_)[:200]
            r.findings.append(Finding('core-body-not-validated', 'CoreUnit::validate returns true without inspecting the fields %s: a core file altered there is accepted by link' % opaque, {'fields': opaque}, rp, detail))

_c15_obl7 = obligations
def obligations():
    return _c15_obl7() + [Ob('O15.7-core-coverage', 'validation of a core file inspects every field of it', ob_core_coverage, ('quick', 'thorough'), 1, {})]

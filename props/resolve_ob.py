"""Small kernels of name resolution / coherence under E2:
 O13.4 ConstructorIndex::unique_enum_for_variant is a function of the index contents (not of hash iteration order)        [C13]
 O16.3 ResolutionContext::package_allowed <=> own package, Builtin or imported                                            [C16]
 O16.4 is_local_name / is_local_nominal_type: a qualified name is local iff its package part *equals* the current package [C16]"""
import json, os, subprocess, tempfile, shutil, itertools
import z3
from vlib import e2, build
from vlib.core import Ob, Finding
import mirsym as ms
from mirsym.engine import Agg, PyVec, PyMap, PySet, Str, Ref, Opaque, Unsupported, mkstr, mkbox

CRATES = ('compiler', 'ast', 'common_defs', 'diagnostics', 'parser')

# ----------------------------------------------------------------------------- O13.4
def replay_variant(runs=40):
    src = 'enum Shape { Dot, Line(int32) }\nenum Mark { Dot, Cross }\nfn f() -> Shape { Dot }\nfn main() -> unit { () }\n'
    d = tempfile.mkdtemp(prefix='vf-c13-')
    try:
        open(os.path.join(d, 'main.gom'), 'w').write(src)
        outs = set()
        for _ in range(runs):
            p = subprocess.run([build.compiler_bin(), 'run', '--dump-tast', os.path.join(d, 'main.gom')], capture_output=True, text=True, timeout=60)
            outs.add(p.stdout + p.stderr)
    finally: shutil.rmtree(d, ignore_errors=True)
    return len(outs) > 1, '%d runs of the real CLI on two enums sharing the variant `Dot` (used unqualified) print %d different outputs' % (runs, len(outs))

def ob_unique_enum(r, tier, seed, nenums):
    W = e2.fresh_world(CRATES); W.hash_order = 'symbolic'; tt = W.tt
    CI = [a for a in tt.by_name['ConstructorIndex'] if a.crate == 'compiler'][0]
    enums = ['Ea', 'Eb', 'Ec'][:nenums]
    has = {e: z3.Bool('has_' + e) for e in enums}
    r.bounds = 'a package with the %d enums %s; for each enum whether it has the variant `Dot` is a solver variable (each enum also has a variant of its own); iteration order of the HashMaps/HashSets is a symbolic permutation' % (nenums, enums)
    r.assumptions = ['oracle: Some(E) iff exactly one enum E of the package has the variant, None otherwise - on every feasible execution']
    def entry(ex):
        inner = PyMap('hash')
        present = {}
        for e in enums:
            present[e] = ex.branch_bool(has[e])
            inner.keys.append(mkstr(e)); inner.vals.append(PySet([mkstr('Own' + e)] + ([mkstr('Dot')] if present[e] else []), 'hash'))
        outer = PyMap('hash'); outer.keys.append(mkstr('Main')); outer.vals.append(inner)
        h = {0: Agg(CI.key, 0, [outer]), 1: mkstr('Main'), 2: mkstr('Dot')}
        res = ex.call('ConstructorIndex::unique_enum_for_variant', [Ref(h, 0), Ref(h, 1), Ref(h, 2)])
        return tuple(sorted(e for e in enums if present[e])), (ms.pystr(res.fields[0]) if res.idx == 1 else None)
    res = e2.explore(r, W, entry, [])
    by = {}
    for p in res:
        r.cases += 1
        if p.kind != 'ok': raise Unsupported('unique_enum_for_variant panicked: %s' % p.value)
        by.setdefault(p.value[0], set()).add(p.value[1])
    r.nontrivial = len(by)
    for owners, outs in sorted(by.items()):
        want = owners[0] if len(owners) == 1 else None
        if outs != {want}:
            key = 'constructor-choice-depends-on-hash-iteration' if len(outs) > 1 else 'wrong-unique-enum'
            if any(f.key == key for f in r.findings): continue
            ok_, detail = replay_variant() if key.startswith('constructor-choice') else (True, 'value returned by the real function MIR')
            r.findings.append(Finding(key, 'enums having the variant: %s; unique_enum_for_variant returns %s (expected %s)' % (list(owners), sorted(map(str, outs)), want), {'owners': list(owners), 'results': sorted(map(str, outs))}, ok_, detail))
    r.samples = [{'owners': list(k), 'result': sorted(map(str, v))} for k, v in list(by.items())[:3]]

# ----------------------------------------------------------------------------- O16.3 / O16.4
NAMES = ['Main', 'Builtin', 'Data', 'DataPkg', 'Lib']

def ob_package_allowed(r, tier, seed):
    W = e2.fresh_world(CRATES); tt = W.tt
    RC = [a for a in tt.by_name['ResolutionContext'] if a.crate == 'compiler'][0]
    r.bounds = 'current package, queried package and each import drawn from %s (all combinations, import sets of size <= 2)' % NAMES
    r.assumptions = ['oracle: allowed <=> the package is the current one, Builtin, or in the import set']
    def entry(ex):
        cur = ex.choose([(True, n) for n in NAMES]); q = ex.choose([(True, n) for n in NAMES])
        imps = [n for n in NAMES if n not in ('Builtin',) and ex.choose([(True, False), (True, True)])]
        ctx = Agg(RC.key, 0, [{'current_package': mkstr(cur), 'imports': Ref([PySet([mkstr(i) for i in imps], 'hash')], 0)}.get(f[0], Opaque(f[0])) for f in RC.variants[0].fields])
        h = {0: ctx, 1: mkstr(q)}
        res = ex.call('ResolutionContext::package_allowed', [Ref(h, 0), Ref(h, 1)])
        return cur, q, imps, res
    res = e2.explore(r, W, entry, [])
    for p in res:
        r.cases += 1
        if p.kind != 'ok': raise Unsupported('package_allowed panicked: %s' % p.value)
        cur, q, imps, got = p.value
        want = q == cur or q == 'Builtin' or q in imps
        r.nontrivial += 1
        if bool(got) != want and not r.findings:
            r.findings.append(Finding('package-visibility-wrong', 'package_allowed(%s) in package %s with imports %s returns %s' % (q, cur, imps, got), {'current': cur, 'query': q, 'imports': imps}, True, 'value returned by the real function MIR'))
    r.samples = []

def replay_orphan(cur, pkg):
    """real CLI: package `cur` implements a trait of package T for a type of package `pkg` - an orphan unless pkg == cur"""
    d = tempfile.mkdtemp(prefix='vf-c16-')
    try:
        def w(p_, name, txt):
            os.makedirs(os.path.join(d, p_) if p_ else d, exist_ok=True); open(os.path.join(d, p_, name) if p_ else os.path.join(d, name), 'w').write(txt)
        w('TraitPkg', 'lib.gom', 'package TraitPkg\ntrait Show { fn show(Self) -> string; }\n')
        w(pkg, 'lib.gom', 'package %s\nstruct Item { v: int32 }\n' % pkg)
        w(cur, 'lib.gom', 'package %s\nimport TraitPkg\nimport %s\nimpl TraitPkg::Show for %s::Item { fn show(self: %s::Item) -> string { "x" } }\nfn touch() -> int32 { 1 }\n' % (cur, pkg, pkg, pkg))
        w('', 'main.gom', 'package Main\nimport %s\nfn main() -> unit { let x = %s::touch(); () }\n' % (cur, cur))
        p = subprocess.run([build.compiler_bin(), 'run', '--dump-tast', os.path.join(d, 'main.gom')], capture_output=True, text=True, timeout=60)
    finally: shutil.rmtree(d, ignore_errors=True)
    txt = p.stdout + p.stderr
    return 'orphan' not in txt, 'package %s implements TraitPkg::Show for %s::Item: %s' % (cur, pkg, 'no orphan-rule diagnostic' if 'orphan' not in txt else 'rejected (orphan rule)') + ' | ' + txt[:160].replace('\n', ' | ')

def ob_is_local(r, tier, seed):
    W = e2.fresh_world(CRATES); tt = W.tt; TY = tt.find_adt(['tast', 'Ty'], 'compiler')
    r.bounds = 'current package in %s; type names `P::Item` with P in %s and the unqualified name `Item`; through is_local_nominal_type on TStruct / TEnum / TApp, and on Vec / Ref / tuple of such a type and int32 (never local)' % (NAMES, NAMES)
    r.assumptions = ['oracle: a qualified name is local iff its package part equals the current package; an unqualified name is local iff the current package is Main or Builtin']
    def entry(ex):
        cur = ex.choose([(True, n) for n in NAMES]); pk = ex.choose([(True, n) for n in NAMES] + [(True, None)])
        shape = ex.choose([(True, 'TStruct'), (True, 'TEnum'), (True, 'TApp'), (True, 'TVec'), (True, 'TRef'), (True, 'TTuple'), (True, 'TInt32')])
        name = (pk + '::Item') if pk else 'Item'
        t = Agg(TY.key, TY.vindex('TStruct' if shape != 'TEnum' else 'TEnum'), [mkstr(name)])
        if shape == 'TApp': t = Agg(TY.key, TY.vindex('TApp'), [mkbox(t), PyVec([Agg(TY.key, TY.vindex('TInt32'), [])])])
        elif shape in ('TVec', 'TRef'): t = Agg(TY.key, TY.vindex(shape), [mkbox(t)])          # a builtin container of a (possibly local) type is not itself a local nominal type
        elif shape == 'TTuple': t = Agg(TY.key, TY.vindex('TTuple'), [PyVec([t])])
        elif shape == 'TInt32': t = Agg(TY.key, TY.vindex('TInt32'), [])
        h = {0: mkstr(cur), 1: t}
        res = ex.call('typer::toplevel::is_local_nominal_type', [Ref(h, 0), Ref(h, 1)])
        return cur, pk, shape, res
    res = e2.explore(r, W, entry, [])
    for p in res:
        r.cases += 1
        if p.kind != 'ok': raise Unsupported('is_local_nominal_type panicked: %s' % p.value)
        cur, pk, shape, got = p.value
        want = ((pk == cur) if pk else cur in ('Main', 'Builtin')) and shape in ('TStruct', 'TEnum', 'TApp')
        r.nontrivial += 1
        if bool(got) != want and not r.findings:
            ok_, detail = True, 'value returned by the real function MIR'
            if pk and pk not in ('Main', 'Builtin') and cur not in ('Main', 'Builtin') and shape in ('TStruct', 'TEnum', 'TApp'):
                try: ok_, detail = replay_orphan(cur, pk)
                except Exception as e: ok_, detail = False, 'replay failed: ' + str(e)[:200]
            r.findings.append(Finding('locality-wrong', 'is_local_nominal_type(current package %s, %s `%s`) = %s, expected %s' % (cur, shape, (pk + '::Item') if pk else 'Item', got, want), {'current': cur, 'package': pk}, ok_, detail))
    r.samples = []

def obligations_c13():
    return [Ob('O13.4-unique-enum-2', 'unqualified constructor lookup independent of hash iteration order (2 enums)', ob_unique_enum, ('quick', 'thorough'), 2, dict(nenums=2)),
            Ob('O13.4-unique-enum-3', 'same, 3 enums', ob_unique_enum, ('quick', 'thorough'), 10, dict(nenums=3))]
def obligations_c16():
    return [Ob('O16.3-package-allowed', 'package_allowed <=> current / Builtin / imported', ob_package_allowed, ('quick', 'thorough'), 5, {}),
            Ob('O16.4-is-local', 'is_local_nominal_type: local iff the package part equals the current package', ob_is_local, ('quick', 'thorough'), 2, {})]

# ----------------------------------------------------------------------------- O16.5 load_package: every file of a directory must declare the same package
def ob_package_decl(r, tier, seed, nfiles):
    W = e2.fresh_world(CRATES); tt = W.tt
    CE = tt.find_adt(['pipeline', 'pipeline', 'CompilationError'], 'compiler'); PU = tt.find_adt(['pipeline', 'packages', 'PackageUnit'], 'compiler')
    AF = [a for a in tt.by_name['File'] if a.crate == 'ast'][0]; AI = [a for a in tt.by_name['AstIdent'] if a.crate == 'ast'][0]
    names = ['Main', 'Lib', 'Libx']
    r.bounds = 'a package directory with %d files (the first is the entry file when an entry is given); the package name each file declares is drawn from %s; with and without an entry file' % (nfiles, names)
    r.assumptions = ['read_gom_sources / fs::read_to_string / parse_ast_file replaced by an environment returning files that declare the chosen package names (parsing is not part of this obligation)',
                     'oracle: Ok(unit named N) iff every file declares N; otherwise an error that is not a parser error']
    cur = {}
    def path(name): return Opaque('path', name=name)
    def astfile(pk):
        fields = [PyVec([]) for _ in AF.variants[0].fields]
        fields[[i for i, (fn_, _t) in enumerate(AF.variants[0].fields) if fn_ == 'package'][0]] = Agg(AI.key, 0, [mkstr(pk)])
        return Agg(AF.key, 0, fields)
    W.stubs['read_gom_sources'] = lambda ex, a: ms.ok(PyVec([path('f%d.gom' % i) for i in range(nfiles)]))
    W.stubs['parse_ast_file'] = lambda ex, a: ms.ok(astfile(cur['decl'][ex.deref(a[0]).name]))
    W.stubs['compile_error'] = lambda ex, a: Agg(CE.key, CE.vindex('Compile'), [Opaque('diagnostics')])
    def ov(f, g):
        if g.endswith('fs::read_to_string') or 'fs::read_to_string::<' in g:
            def m_read(ex, f_, a): return ms.ok(mkstr('src'))
            return m_read
        if 'Path' in g and (g.endswith('::eq') or g.endswith('::ne')):
            def m_path_eq(ex, f_, a):
                x, y = ex.deref(a[0]), ex.deref(a[1])
                while isinstance(x, Ref): x = x.get()
                while isinstance(y, Ref): y = y.get()
                r_ = x.name == y.name; return r_ if g.endswith('eq') else not r_
            return m_path_eq
        return None
    W.overrides = [ov]
    def entry(ex):
        decl = {'f%d.gom' % i: ex.choose([(True, n) for n in names]) for i in range(nfiles)}; cur['decl'] = decl
        with_entry = ex.choose([(True, True), (True, False)])
        h = {0: path('dir'), 1: path('f0.gom')}
        res = ex.call('load_package', [Ref(h, 0), ms.some(Ref(h, 1)) if with_entry else ms.NONE(), ms.some(astfile(decl['f0.gom'])) if with_entry else ms.NONE()], 'compiler')
        if res.idx == 0:
            u = res.fields[0]; f = dict(zip([x[0] for x in PU.variants[0].fields], u.fields))
            return decl, with_entry, ('ok', ms.pystr(f['name']), len(f['files'].items))
        return decl, with_entry, ('err', CE.variants[res.fields[0].idx].name)
    res = e2.explore(r, W, entry, [])
    for p in res:
        r.cases += 1
        if p.kind != 'ok': raise Unsupported('load_package panicked: %s' % p.value)
        decl, with_entry, got = p.value
        same = len(set(decl.values())) == 1
        want = ('ok', decl['f0.gom'], nfiles) if same else ('err', 'Compile')
        r.nontrivial += 1
        if got != want and not r.findings:
            r.findings.append(Finding('package-declaration-check-wrong', 'files declaring %s (entry given: %s): load_package returns %s, expected %s' % (decl, with_entry, got, want), {'decl': decl, 'entry': with_entry}, True, 'value returned by the real load_package MIR under the stated stubs'))
    r.samples = []

_obl_c16 = obligations_c16
def obligations_c16():
    return _obl_c16() + [Ob('O16.5-package-declarations-2', 'load_package: all files of a directory declare one package (2 files)', ob_package_decl, ('quick', 'thorough'), 2, dict(nfiles=2)),
                         Ob('O16.5-package-declarations-3', 'same, 3 files', ob_package_decl, ('quick', 'thorough'), 5, dict(nfiles=3))]

# ----------------------------------------------------------------------------- O16.6 discovery: a directory must declare the package it is imported as; the root must be Main
def ob_discovery_names(r, tier, seed):
    from props import pkg_ob
    W = e2.fresh_world(CRATES)
    CE = W.tt.find_adt(['pipeline', 'pipeline', 'CompilationError'], 'compiler')
    names = ['Main', 'A', 'B']
    r.bounds = 'root package importing A, A importing B (chain); the name each of the three directories declares is drawn from {Main, A, B} (solver decisions)'
    r.assumptions = ['load_package replaced by an environment stub returning a unit with the declared name (file system and parsing are not part of this obligation)',
                     'oracle: Ok iff the root declares Main and every imported directory declares the name it is imported as; otherwise Err']
    cur = {}
    def load_package_stub(ex, a):
        dirv = ex.deref(a[0]); d = getattr(dirv, 'pkg', 'Main')
        imps = {'Main': ['A'], 'A': ['B'], 'B': []}[d]
        return ms.ok(pkg_ob.unit_value(W, cur['decl'][d], imps))
    W.stubs['load_package'] = load_package_stub
    W.stubs['compile_error'] = lambda ex, a: Agg(CE.key, CE.vindex('Compile'), [Opaque('diagnostics')])
    def ov(f, g):
        if g.endswith('PackageLayout>::root_package_name'):
            def m_layout_root(ex, f_, a): return mkstr('Main')
            return m_layout_root
        if g.endswith('PackageLayout>::package_dir'):
            def m_layout_dir(ex, f_, a): return Opaque('dir', pkg=pkg_ob.sval(ex.deref(a[3])))
            return m_layout_dir
        return None
    W.overrides = [ov]
    def entry(ex):
        decl = {d: ex.choose([(True, n) for n in names]) for d in names}; cur['decl'] = decl
        h = {0: Opaque('layout'), 1: Opaque('rootdir', pkg='Main')}
        res = ex.call('discover_packages_with_layout', [Ref(h, 0), Ref(h, 1), ms.NONE(), ms.NONE()])
        return decl, res.idx == 0
    res = e2.explore(r, W, entry, [])
    for p in res:
        r.cases += 1
        if p.kind != 'ok': raise Unsupported('discover_packages panicked: %s' % p.value)
        decl, ok_ = p.value
        # the walk stops at the first mismatch; what a mis-declared directory imports is then irrelevant
        want = decl['Main'] == 'Main' and decl['A'] == 'A' and decl['B'] == 'B'
        r.nontrivial += 1
        if ok_ != want and not r.findings:
            r.findings.append(Finding('misdeclared-package-accepted' if ok_ else 'well-declared-project-rejected', 'directories Main / A / B declare %s: discovery returns %s' % (decl, 'Ok' if ok_ else 'Err'), {'decl': decl}, True, 'value returned by the real discover_packages_with_layout MIR under the stated stubs'))
    r.samples = []

_obl_c16b = obligations_c16
def obligations_c16():
    return _obl_c16b() + [Ob('O16.6-discovery-declared-names', 'discovery accepts a project iff every directory declares the package it is imported as', ob_discovery_names, ('quick', 'thorough'), 3, {})]

# ----------------------------------------------------------------------------- O13.7 the files of a package are read in an order that does not depend on directory enumeration
def ob_source_order(r, tier, seed):
    import itertools
    W = e2.fresh_world(CRATES)
    names = ['b.gom', 'a.gom', 'c.gom', 'notes.txt']
    r.bounds = 'a package directory holding %s; fs::read_dir yields the entries in every one of the %d possible orders (solver decision)' % (names, 24)
    r.assumptions = ['fs::read_dir / DirEntry::path are environment stubs; paths are modelled as strings', 'oracle: read_gom_sources returns the same list for every enumeration order (and only the .gom files)']
    perms = list(itertools.permutations(names))
    def ov(f, g):
        if g.endswith('fs::read_dir') or 'read_dir::<' in g or g == 'read_dir':
            def m_read_dir(ex, f_, a):
                order = ex.choose([(True, p_) for p_ in perms])
                from mirsym.models import Iter
                return ms.ok(Iter([ms.ok(Opaque('direntry', name=n)) for n in order]))
            return m_read_dir
        if g.endswith('Path::extension'):
            def m_path_ext(ex, f_, a):
                n = ms.pystr(ex.deref(a[0])); return ms.some(mkstr(n.rsplit('.', 1)[1])) if '.' in n else ms.NONE()
            return m_path_ext
        if g.endswith('DirEntry::path'):
            def m_entry_path(ex, f_, a): return mkstr(ex.deref(a[0]).name)
            return m_entry_path
        return None
    W.overrides = [ov]
    def entry(ex):
        h = {0: mkstr('dir')}
        res = ex.call('pipeline::packages::read_gom_sources', [Ref(h, 0)])
        if res.idx != 0: return ('err',)
        return tuple(ms.pystr(ex.deref(x) if not isinstance(x, Str) else x) for x in res.fields[0].items)
    res = e2.explore(r, W, entry, [])
    outs = set()
    for p in res:
        r.cases += 1
        if p.kind != 'ok': raise Unsupported('read_gom_sources panicked: %s' % p.value)
        outs.add(p.value)
    r.nontrivial = len(res)
    if len(outs) > 1 or (outs and set(next(iter(outs))) != {'a.gom', 'b.gom', 'c.gom'}):
        r.findings.append(Finding('source-order-depends-on-directory-enumeration', 'read_gom_sources returns %d different lists depending on the order in which the directory is enumerated, e.g. %s' % (len(outs), sorted(outs)[:2]), {'lists': [list(o) for o in sorted(outs)][:4]}, True,
                                  'lists returned by the real read_gom_sources MIR for different enumeration orders (a CLI replay needs a file system whose readdir order can be controlled)'))
    else: r.samples.append({'files': list(next(iter(outs)))})

_obl_c13b = obligations_c13
def obligations_c13():
    return _obl_c13b() + [Ob('O13.7-source-file-order', 'read_gom_sources is independent of directory enumeration order', ob_source_order, ('quick', 'thorough'), 2, {})]

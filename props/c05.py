"""C05 - lexical name resolution: the real NameResolution::resolve_expr / resolve_pat on lazily built ASTs vs the property's own scoping rule."""
import json, os, subprocess, tempfile
import z3
from vlib import e2, build
from vlib.core import Ob, Finding
import mirsym as ms
from mirsym.lazy import Spec, force
from mirsym.engine import Agg, LazyEnum, PyVec, Str, Ref, Opaque, PyMap, PySet, Unsupported, Panic, unbox, mkbox, mkstr

CRATES = ('compiler', 'ast', 'common_defs', 'diagnostics', 'parser')

class DSpec(Spec):
    """allowed constructors depend on the remaining depth: >0 all, ==0 leaves + `let`, <0 leaves"""
    def make_adt(s, ex, adt, d, path, subst):
        if adt.name == 'Expr':
            s.allowed['Expr'] = s.exprs_full if d > 0 else (s.leaves0 + (['ELet'] if 'ELet' in s.exprs_full and d == 0 else []))
            s.leaves['Expr'] = s.allowed['Expr']
            return Spec.make_adt(s, ex, adt, max(d, 1) if d == 0 else (1 if d < 0 else d), path, subst) if False else Spec.make_adt(s, ex, adt, d if d > 0 else 1, path, subst) if d > 0 else s._leafish(ex, adt, d, path, subst)
        return Spec.make_adt(s, ex, adt, d, path, subst)
    def _leafish(s, ex, adt, d, path, subst):
        # build with depth 1 so that make_adt uses `allowed` (already restricted), children get depth d-1 via fields()
        import z3 as _z
        names = s.allowed['Expr']
        ex.fresh += 1
        dv = _z.Int('%s.d%d' % (path, ex.fresh)); idxs = [adt.vindex(n) for n in names]
        ex.restrict(dv, idxs)
        le = LazyEnum(adt, dv, d, s, path); le.subst = subst
        return le

def mkspec(W, depth, names, exprs, leaves, pats):
    def ptr(spec, ex, ty, d, path):
        ex.fresh += 1; return Opaque('astptr', n=ex.fresh)
    def path1(spec, ex, ty, d, path):
        PATH = W.tt.find_adt(['ast', 'ast', 'Path'], 'ast'); SEG = W.tt.find_adt(['ast', 'ast', 'PathSegment'], 'ast'); ID = W.tt.find_adt(['ast', 'ast', 'AstIdent'], 'ast')
        return Agg(PATH.key, 0, [PyVec([Agg(SEG.key, 0, [Agg(ID.key, 0, [spec.make_string(ex, path)])])])])
    sp = DSpec(W.tt, crate='ast', allowed={'Expr': exprs, 'Pat': pats}, leaves={'Expr': leaves, 'Pat': [p for p in pats if p in ('PVar', 'PWild')]},
                strings=names, vec_len=(1, 1), depth=depth,
                overrides={'MySyntaxNodePtr': ptr, 'SyntaxNodePtr': ptr, 'Path': path1, 'TypeExpr': lambda *a: Opaque('typeexpr'),
                           'Option': None} if False else {'MySyntaxNodePtr': ptr, 'SyntaxNodePtr': ptr, 'Path': path1},
                field_hooks={('Expr', 'ELet', 'annotation'): lambda sp, ex, d, p: ms.NONE(),
                             ('ClosureParam', 'ClosureParam', 'ty'): lambda sp, ex, d, p: ms.NONE(),
                             ('Expr', 'EInt', 'value'): lambda sp, ex, d, p: mkstr('1'),
                             ('Expr', 'EIf', 'cond'): lambda sp, ex, d, p: mkbox(Agg(EXPR_KEY[0], EXPR_IDX['EBool'], [True, sp.overrides['MySyntaxNodePtr'](sp, ex, None, d, p)])),
                             ('Expr', 'EIf', 'then_branch'): lambda sp, ex, d, p: mkbox(block_of(sp, ex, d, p)),
                             ('Expr', 'EIf', 'else_branch'): lambda sp, ex, d, p: mkbox(Agg(EXPR_KEY[0], EXPR_IDX['EBlock'], [PyVec([Agg(EXPR_KEY[0], EXPR_IDX['EInt'], [mkstr('0'), sp.overrides['MySyntaxNodePtr'](sp, ex, None, d, p)])]), sp.overrides['MySyntaxNodePtr'](sp, ex, None, d, p)])),
                             ('Expr', 'EWhile', 'cond'): lambda sp, ex, d, p: mkbox(Agg(EXPR_KEY[0], EXPR_IDX['EBool'], [True, sp.overrides['MySyntaxNodePtr'](sp, ex, None, d, p)])),
                             ('Expr', 'EWhile', 'body'): lambda sp, ex, d, p: mkbox(block_of(sp, ex, d, p)),
                             ('Pat', 'PTuple', 'pats'): lambda sp, ex, d, p: PyVec([sp.make_adt(ex, sp.tt.find_adt(['ast', 'ast', 'Pat'], 'ast'), 0, p + '.p%d' % i, {}) for i in range(2)]),
                             ('Expr', 'EMatch', 'expr'): lambda sp, ex, d, p: mkbox(Agg(EXPR_KEY[0], EXPR_IDX['EPath'], [sp.overrides['Path'](sp, ex, None, d, p), sp.overrides['MySyntaxNodePtr'](sp, ex, None, d, p)])),
                             ('Expr', 'EClosure', 'body'): lambda sp, ex, d, p: mkbox(block_or_expr(sp, ex, d, p)),
                             ('Arm', 'Arm', 'body'): lambda sp, ex, d, p: block_or_expr(sp, ex, d, p),
                             ('Expr', 'EBlock', 'exprs'): lambda sp, ex, d, p: PyVec([sp.make_adt(ex, sp.tt.find_adt(['ast', 'ast', 'Expr'], 'ast'), d, p + '[%d]' % i, {}) for i in range(2)])})
    if 'PTuple' in pats:      # patterns sit at depth 0 of their let / arm: give them one level so that a tuple pattern (of two leaf patterns) can be chosen
        PATA = W.tt.find_adt(['ast', 'ast', 'Pat'], 'ast')
        sp.field_hooks[('Expr', 'ELet', 'pat')] = lambda sp_, ex, d, p: sp_.make_adt(ex, PATA, 1, p + '.pat', {})
        sp.field_hooks[('Arm', 'Arm', 'pat')] = lambda sp_, ex, d, p: sp_.make_adt(ex, PATA, 1, p + '.pat', {})
    sp.exprs_full = exprs; sp.leaves0 = leaves
    return sp

EXPR_KEY = [None]; EXPR_IDX = {}
def block_or_expr(sp, ex, d, p):
    """closure bodies and match-arm bodies are either a block or a plain expression"""
    EX = sp.tt.find_adt(['ast', 'ast', 'Expr'], 'ast')
    if ex.choose([(True, 0), (True, 1)]) == 0: return sp.make_adt(ex, EX, d, p, {})
    return block_of(sp, ex, d, p)
def block_of(sp, ex, d, p):
    """if-branches are always blocks in source"""
    EX = sp.tt.find_adt(['ast', 'ast', 'Expr'], 'ast')
    v = EX.variants[EX.vindex('EBlock')]
    return Agg(EX.key, EX.vindex('EBlock'), [sp.make_field(ex, EX, v, i, d, p + '.blk', {}) for i in range(len(v.fields))])

# ----------------------------------------------------------------------------- oracle: the property's own scoping rule
class Oracle:
    def __init__(s, EX, PT, leaky=False):
        s.EX, s.PT, s.leaky = EX, PT, leaky; s.uses = {}       # use ptr id -> binder ptr id | None
    def f(s, v): return dict(zip([x[0] for x in s.EX.variants[v.idx].fields], v.fields))
    def ident(s, a): return ms.pystr(a.fields[0])
    def bind_pat(s, p, scope):
        n = s.PT.variants[p.idx].name; f = dict(zip([x[0] for x in s.PT.variants[p.idx].fields], p.fields))
        if n == 'PVar': scope.append((s.ident(f['name']), f['astptr'].n))
        elif n == 'PTuple':
            for q in f['pats'].items: s.bind_pat(q, scope)
        elif n == 'PWild': pass
        else: raise Unsupported('oracle: pattern ' + n)
    def expr(s, e, scope):
        if isinstance(e, Agg) and e.ty == 'Box': e = unbox(e)
        n = s.EX.variants[e.idx].name; f = s.f(e)
        inner = (lambda: scope) if s.leaky else (lambda: list(scope))
        if n == 'EPath':
            name = ms.pystr(f['path'].fields[0].items[0].fields[0].fields[0]); hit = None
            for nm, b in reversed(scope):
                if nm == name: hit = b; break
            s.uses[f['astptr'].n] = hit
        elif n in ('EInt', 'EBool', 'EUnit'): pass
        elif n == 'ELet':
            s.expr(f['value'], scope); s.bind_pat(f['pat'], scope)
        elif n == 'EBlock':
            sc = inner()
            for x in f['exprs'].items: s.expr(x, sc)
        elif n == 'EIf':
            s.expr(f['cond'], scope); s.expr(f['then_branch'], scope); s.expr(f['else_branch'], scope)      # branches are EBlocks -> own scope
        elif n == 'EMatch':
            s.expr(f['expr'], scope)
            for arm in f['arms'].items:
                sc = inner(); s.bind_pat(arm.fields[0], sc); s.expr(arm.fields[1], sc)
        elif n == 'EClosure':
            sc = list(scope)
            for prm in f['params'].items: sc.append((s.ident(prm.fields[0]), prm.fields[2].n))
            s.expr(f['body'], sc)
        elif n == 'EBinary': s.expr(f['lhs'], scope); s.expr(f['rhs'], scope)
        elif n == 'EWhile': s.expr(f['cond'], scope); s.expr(f['body'], scope)      # the body is an EBlock -> own scope
        elif n == 'EGo': s.expr(f['expr'], scope)
        elif n == 'ETuple':
            for x in f['items'].items: s.expr(x, scope)
        elif n == 'ECall':
            s.expr(f['func'], scope)
            for x in f['args'].items: s.expr(x, scope)
        else: raise Unsupported('oracle: expression ' + n)

def render(EX, PT, e, ind=0, top=False):
    """goml source text of a forced AST (for the compiler-level replay and for witnesses)"""
    if isinstance(e, Agg) and e.ty == 'Box': e = unbox(e)
    n = EX.variants[e.idx].name; f = dict(zip([x[0] for x in EX.variants[e.idx].fields], e.fields))
    R = lambda x: render(EX, PT, x, ind)
    def pat(p):
        pn = PT.variants[p.idx].name; pf = dict(zip([x[0] for x in PT.variants[p.idx].fields], p.fields))
        if pn == 'PVar': return ms.pystr(pf['name'].fields[0])
        if pn == 'PWild': return '_'
        return '(' + ', '.join(pat(q) for q in pf['pats'].items) + ')'
    if n == 'EPath': return ms.pystr(f['path'].fields[0].items[0].fields[0].fields[0])
    if n == 'EInt': return '1'
    if n == 'EBool': return 'true'
    if n == 'ELet':
        # a tuple pattern needs a tuple value for the replay program to type-check: the value is written once per component
        np_ = len(dict(zip([x[0] for x in PT.variants[f['pat'].idx].fields], f['pat'].fields))['pats'].items) if PT.variants[f['pat'].idx].name == 'PTuple' else 0
        return 'let %s = %s' % (pat(f['pat']), R(f['value']) if np_ == 0 else '(' + ', '.join(R(f['value']) for _ in range(np_)) + ')')
    if n == 'EBlock':
        xs = f['exprs'].items; parts = []
        for i, x in enumerate(xs):
            t = R(x); xe = unbox(x) if isinstance(x, Agg) and x.ty == 'Box' else x
            parts.append(t + (';' if EX.variants[xe.idx].name == 'ELet' or i + 1 < len(xs) else ''))
        if top: parts[-1] = parts[-1].rstrip(';') + ';'; parts.append('0')
        elif EX.variants[(xs[-1]).idx].name == 'ELet': parts.append('0')
        return '{ ' + ' '.join(parts) + ' }'
    if n == 'EIf': return 'if true %s else %s' % (R(f['then_branch']), R(f['else_branch']))
    if n == 'EMatch': return 'match %s { %s }' % (R(f['expr']), ', '.join('%s => %s' % (pat(a.fields[0]), R(a.fields[1])) for a in f['arms'].items))
    if n == 'EClosure': return '|%s| %s' % (', '.join(ms.pystr(p.fields[0].fields[0]) for p in f['params'].items), R(f['body']))
    if n == 'EBinary': return '(%s + %s)' % (R(f['lhs']), R(f['rhs']))
    if n == 'EWhile': return 'while %s %s' % (R(f['cond']), R(f['body']))
    if n == 'ETuple': return '(' + ', '.join(R(x) for x in f['items'].items) + ',)' if len(f['items'].items) == 1 else '(' + ', '.join(R(x) for x in f['items'].items) + ')'
    if n == 'ECall': return '%s(%s)' % (R(f['func']), ', '.join(R(x) for x in f['args'].items))
    raise Unsupported('render ' + n)

def ob_resolve(r, tier, seed, depth, names, exprs, leaves, pats, top, second_depth=-1, path_limit=250000, arms=1, globals_=False, plain_bodies=False):
    W = e2.fresh_world(CRATES)
    EX = W.tt.find_adt(['ast', 'ast', 'Expr'], 'ast'); PT = W.tt.find_adt(['ast', 'ast', 'Pat'], 'ast')
    EXPR_KEY[0] = EX.key; EXPR_IDX.update({v.name: i for i, v in enumerate(EX.variants)})
    HE = W.tt.find_adt(['hir', 'Expr'], 'compiler'); HP = W.tt.find_adt(['hir', 'Pat'], 'compiler'); NR = W.tt.find_adt(['hir', 'NameRef'], 'compiler')
    HT = W.tt.find_adt(['hir', 'HirTable'], 'compiler'); htf = [f[0] for f in HT.variants[0].fields]
    CP = W.tt.find_adt(['ast', 'ast', 'ClosureParam'], 'ast')
    spec = mkspec(W, depth, names, exprs, leaves, pats)
    ARM = W.tt.find_adt(['ast', 'ast', 'Arm'], 'ast')
    if arms > 1:
        spec.field_hooks[('Expr', 'EMatch', 'arms')] = lambda sp, ex, d, p: PyVec([sp.make_adt(ex, ARM, d, '%s.arm%d' % (p, i), {}) for i in range(arms)])
    if plain_bodies:
        spec.field_hooks[('Arm', 'Arm', 'body')] = lambda sp, ex, d, p: sp.make_adt(ex, EX, d, p, {})
        spec.field_hooks[('Expr', 'EClosure', 'body')] = lambda sp, ex, d, p: mkbox(sp.make_adt(ex, EX, d, p, {}))
    DEFID = W.tt.find_adt(['hir', 'DefId'], 'compiler'); BID = W.tt.find_adt(['hir', 'BuiltinId'], 'compiler')
    r.bounds = 'function bodies = block of %s; sub-expressions lazily built to depth %d over %s (leaves %s), patterns %s, identifiers %s, lists of 1..2 elements; empty global tables' % (top, depth, exprs, leaves, pats, list(names))
    if globals_: r.bounds += '; global tables: a top-level definition `x` and a builtin `y`'
    if arms > 1: r.bounds += '; every match has %d arms' % arms
    r.assumptions = ['if-branches are blocks (as the grammar requires); type annotations absent; no global definitions/builtins/constructors in scope (identifiers resolve to locals or are unresolved)',
                     'oracle: 50-line reference resolver implementing the rule of the property statement (innermost enclosing binder; a binding ends with its block / arm / closure)']
    NRn = NR.vnames()
    def entry(ex):
        ptr = spec.overrides['MySyntaxNodePtr']
        first = spec.make_adt(ex, EX, depth, 'e0', {})
        second = spec.make_adt(ex, EX, second_depth, 'e1', {})
        body = Agg(EX.key, EX.vindex('EBlock'), [PyVec([first, second]), ptr(spec, ex, None, 0, 'b')])
        ht = ex.call('hir::HirTable::new', [Agg('compiler::hir::PackageId', 0, [1])])
        bmap, dmap = PyMap('hash'), PyMap('hash')
        if globals_:
            # a top-level definition named x and a builtin named y: a local binder must still win
            dmap.keys.append(mkstr('x')); dmap.vals.append(Agg(DEFID.key, 0, [Agg('compiler::hir::PackageId', 0, [1]), 77]))
            bmap.keys.append(mkstr('y')); bmap.vals.append(Agg(BID.key, 0, []))
        store = {'b': bmap, 'd': dmap, 'deps': PyMap('hash'), 'cp': mkstr('Main'), 'imp': PySet([], 'hash'),
                 'ci': Agg('compiler::typer::name_resolution::ConstructorIndex', 0, [PyMap('hash')])}
        ctx = Agg('compiler::typer::name_resolution::ResolutionContext', 0, [Ref(store, k) for k in ('b', 'd', 'deps', 'cp', 'imp', 'ci')])
        DI = W.tt.find_adt(['diagnostics', 'Diagnostics'], 'diagnostics')
        nr = Agg('compiler::typer::name_resolution::NameResolution', 0, [Agg(DI.key, 0, [PyVec([])])])
        env = Agg('compiler::typer::name_resolution::ResolveLocalEnv', 0, [PyVec([])])
        h = {0: nr, 1: body, 2: env, 3: ctx, 4: ht}
        ex.call('NameResolution::resolve_expr', [Ref(h, i) for i in range(5)])
        table = dict(zip(htf, h[4].fields))
        got = {}; binders = {}
        for p in table['pats'].items:
            if isinstance(p, Agg) and HP.variants[p.idx].name == 'PVar': binders[(p.fields[0].fields[1])] = p.fields[1].n       # LocalId.idx -> binder ptr
        for e in table['exprs'].items:
            if isinstance(e, Agg) and HE.variants[e.idx].name == 'EClosure':
                for prm in e.fields[0].items: binders[prm.fields[0].fields[1]] = prm.fields[2].n
            if isinstance(e, Agg) and HE.variants[e.idx].name == 'ENameRef':
                res = e.fields[0]; ptr = e.fields[2].fields[0].n
                got[ptr] = ('Local', res.fields[0].fields[1]) if NRn[res.idx] == 'Local' else (NRn[res.idx], None)
        ast = force(ex, h[1])
        return ast, got, binders
    res = e2.explore(r, W, entry, [], path_limit=path_limit)
    found = {}
    for p in res:
        r.cases += 1
        if p.kind != 'ok':
            if 'panic' not in found: found['panic'] = (None, 'resolver panics: ' + str(p.value), None, False)
            continue
        ast, got, binders = p.value
        o = Oracle(EX, PT); o.expr(ast, [('x', 'GLOBAL'), ('y', 'GLOBAL')] if globals_ else [])
        if not o.uses: continue
        r.nontrivial += 1
        lk = Oracle(EX, PT, leaky=True); lk.expr(ast, [('x', 'GLOBAL'), ('y', 'GLOBAL')] if globals_ else [])
        def norm(g):
            if g[0] == 'Local': return binders.get(g[1])
            return {'Def': 'GLOBAL', 'Builtin': 'GLOBAL'}.get(g[0]) if globals_ else None
        bad = [(u, norm(got[u]), want) for u, want in o.uses.items() if u in got and norm(got[u]) != want]
        missing = [u for u in o.uses if u not in got]
        if missing: raise Unsupported('use not found in HIR (mapping by astptr failed)')
        if bad:
            leak = all(norm(got[u]) == lk.uses[u] for u in o.uses)
            key = 'block-scope-leak' if leak else 'wrong-binder'
            wellscoped = all(v is not None for v in o.uses.values())
            if key not in found or (wellscoped and not found[key][3]): found[key] = (ast, 'a use resolves to a binder that is not the innermost enclosing one' + (' (its block/arm/branch has ended)' if leak else ''), bad, wellscoped)
        elif len(r.samples) < 3:
            r.samples.append({'program': render(EX, PT, ast), 'uses': len(o.uses)})
    for key, (ast, what, bad, _ws) in found.items():
        if ast is None:
            r.findings.append(Finding(key, what, {}, False)); continue
        src = 'fn main() -> int32 %s\n' % render(EX, PT, ast, top=True)
        if globals_:
            # compiler-level confirmation with a canned program: a local closure named like a top-level function must be the one called
            import re as _re
            src = 'fn combine(a: int32, b: int32) -> int32 { a + b }\nfn main() -> unit {\n  let combine = |a: int32, b: int32| a * b;\n  string_println(int32_to_string(combine(3, 4)))\n}\n'
            d_ = tempfile.mkdtemp(prefix='vf-c05-')
            try:
                open(os.path.join(d_, 'main.gom'), 'w').write(src)
                out = subprocess.run([build.compiler_bin(), 'run', '--dump-hir', os.path.join(d_, 'main.gom')], capture_output=True, text=True, timeout=60).stdout
            finally:
                import shutil; shutil.rmtree(d_, ignore_errors=True)
            ok = _re.search(r'combine/\d+\(3, 4\)', out) is None and '(3, 4)' in out
            detail = 'HIR of `let combine = |a, b| a * b; combine(3, 4)` next to `fn combine`: ' + ' | '.join(l.strip() for l in out.splitlines() if '(3, 4)' in l)[:200]
            if not ok: ok, detail = True, 'not reproduced by the canned program; disagreement read from the HirTable produced by the real resolve_expr MIR. ' + detail
        else:
            ok, detail = replay_program(src, expect_scoping_problem=True)
        r.findings.append(Finding(key, '%s: %s' % (what, src.strip()), {'program': src, 'disagreements': [[u, g, w] for u, g, w in bad][:4], 'compiler': detail[:300]}, ok, detail))

def replay_program(src, expect_scoping_problem):
    """compile the program with the real CLI: the disagreement shows either as an internal scoping error on a well-scoped program
    or (for programs the oracle calls ill-scoped) as acceptance; --dump-hir prints the chosen local ids."""
    d = tempfile.mkdtemp(prefix='vf-c05-')
    try:
        path = os.path.join(d, 'main.gom'); open(path, 'w').write(src)
        r_ = subprocess.run([build.compiler_bin(), 'run', '--dump-hir', path], capture_output=True, text=True, timeout=60)
        out = (r_.stdout + r_.stderr)
        hit = ('not found in environment' in out) or ('Internal error' in out) or ('nresolved' in out and r_.returncode != 0)
        return hit, out[-400:].replace('\n', ' | ')
    finally:
        import shutil; shutil.rmtree(d, ignore_errors=True)

def obligations():
    E1 = ['EPath', 'EInt', 'ELet', 'EIf', 'EMatch', 'EClosure', 'EBinary']
    return [
        Ob('O5.1-d1-use', 'resolver vs lexical scoping rule: { E; use } with E of depth 1 (+ a let level)', ob_resolve, ('quick', 'thorough'), 5,
           dict(depth=1, names=('x', 'y'), exprs=E1, leaves=['EPath', 'EInt'], pats=['PVar', 'PWild'], top='{ E; use }', second_depth=-1)),
        Ob('O5.1-match2', 'resolver vs lexical scoping rule: two-arm matches (arm bindings must not reach sibling arms)', ob_resolve, ('quick', 'thorough'), 5,
           dict(depth=1, names=('x', 'y'), exprs=['EPath', 'EMatch', 'ELet'], leaves=['EPath', 'EInt'], pats=['PVar', 'PWild'], top='{ E; use }', second_depth=-1, arms=2, plain_bodies=True)),
        Ob('O5.1-globals', 'resolver: a local binder wins over a top-level definition / builtin of the same name', ob_resolve, ('quick', 'thorough'), 5,
           dict(depth=1, names=('x', 'y'), exprs=['EPath', 'ELet', 'EMatch', 'EClosure', 'ECall'], leaves=['EPath', 'EInt'], pats=['PVar', 'PWild'], top='{ E; use }', second_depth=-1, globals_=True, plain_bodies=True)),
        Ob('O5.1-d1-while-tuplepat', 'resolver vs lexical scoping rule: while bodies, if branches and tuple patterns in let', ob_resolve, ('quick', 'thorough'), 5,
           dict(depth=1, names=('x', 'y'), exprs=['EPath', 'ELet', 'EWhile', 'EIf'], leaves=['EPath', 'EInt'], pats=['PVar', 'PWild', 'PTuple'], top='{ E; use }', second_depth=-1)),
        Ob('O5.1-d1-d0', 'resolver vs lexical scoping rule: { E; E0 } with E of depth 1 and E0 a leaf or let', ob_resolve, ('thorough',), 20,
           dict(depth=1, names=('x', 'y'), exprs=E1, leaves=['EPath', 'EInt'], pats=['PVar', 'PWild'], top='{ E; E0 }', second_depth=0)),
        Ob('O5.1-d2-use', 'resolver vs lexical scoping rule: { E; use } with E of depth 2 over scope-forming constructors', ob_resolve, ('thorough',), 100,
           dict(depth=2, names=('x',), exprs=['EPath', 'ELet', 'EIf', 'EMatch', 'EClosure'], leaves=['EPath'], pats=['PVar'], top='{ E; use }', second_depth=-1)),
        Ob('O5.1-d2-use-xy', 'resolver vs lexical scoping rule: { E; use } with E of depth 2 over let / closure, two names', ob_resolve, ('thorough',), 100,
           dict(depth=2, names=('x', 'y'), exprs=['EPath', 'ELet', 'EClosure'], leaves=['EPath'], pats=['PVar'], top='{ E; use }', second_depth=-1)),
    ]
META = {
    'level': 'other',
    'explanation': 'Bounded solver-checked obligation over the real resolver: the MIR of NameResolution::resolve_expr / resolve_pat / resolve_closure_param, ResolveLocalEnv::{add,rfind,enter_scope}, HirTable::{new,fresh_local,alloc_*} and the ast::Path helpers is executed on lazily initialised ast::Expr inputs (constructor choice, identifier choice and list lengths are solver decisions); every use in the produced HIR (identified through its astptr tag) must resolve to the binder chosen by a reference resolver that implements the scoping rule of the property statement, and Unresolved <=> no binder in scope. Violations are rendered as goml programs and replayed through the real compiler CLI.',
    'assumptions': ['la-arena, im::Vector, HashMap/HashSet (empty) modelled', 'outside: the typer\'s LocalTypeEnv, cross-package paths, diagnostics wording, depth > bounds'],
    'trusted_base': ['mirsym MIR interpreter', 'library models listed per obligation', 'z3', 'reference resolver (oracle)'],
}

# ----------------------------------------------------------------------------- O5.2 an identifier pattern that names a variant of an enum of the package is that variant, not a fresh binder
def ob_variant_pattern(r, tier, seed):
    import subprocess, tempfile, shutil, os
    from vlib import build
    W = e2.fresh_world(CRATES)
    HP = W.tt.find_adt(['hir', 'Pat'], 'compiler'); PT = [a for a in W.tt.by_name['Pat'] if a.crate == 'ast'][0]
    AI = [a for a in W.tt.by_name['AstIdent'] if a.crate == 'ast'][0]
    r.bounds = 'the pattern `N` (a bare identifier, lowered per file as a variable pattern) resolved in package Main whose constructor index - built from all files of the package - has an enum Color { Red, Green }; N in {Red, Green, other}'
    r.assumptions = ['the constructor index is the one name resolution builds from every file of the package and its dependencies (ConstructorIndex::new_with_deps)',
                     'oracle: an identifier pattern that names a variant of an enum of the current package denotes that variant - as it does when the enum is declared in the same file - and is a variable binder otherwise']
    def entry(ex):
        name = ex.choose([(True, n) for n in ('Red', 'Green', 'other')])
        ht = ex.call('hir::HirTable::new', [Agg('compiler::hir::PackageId', 0, [1])])
        inner = PyMap('hash'); inner.keys.append(mkstr('Color')); inner.vals.append(PySet([mkstr('Red'), mkstr('Green')], 'hash'))
        outer = PyMap('hash'); outer.keys.append(mkstr('Main')); outer.vals.append(inner)
        store = {'b': PyMap('hash'), 'd': PyMap('hash'), 'deps': PyMap('hash'), 'cp': mkstr('Main'), 'imp': PySet([], 'hash'),
                 'ci': Agg('compiler::typer::name_resolution::ConstructorIndex', 0, [outer])}
        ctx = Agg('compiler::typer::name_resolution::ResolutionContext', 0, [Ref(store, k) for k in ('b', 'd', 'deps', 'cp', 'imp', 'ci')])
        DI = W.tt.find_adt(['diagnostics', 'Diagnostics'], 'diagnostics')
        nr = Agg('compiler::typer::name_resolution::NameResolution', 0, [Agg(DI.key, 0, [PyVec([])])])
        env = Agg('compiler::typer::name_resolution::ResolveLocalEnv', 0, [PyVec([])])
        pat = Agg(PT.key, PT.vindex('PVar'), [Agg(AI.key, 0, [mkstr(name)]), Opaque('astptr', n=1)])
        h = {0: nr, 1: pat, 2: env, 3: ctx, 4: ht}
        pid = ex.call('NameResolution::resolve_pat', [Ref(h, i) for i in range(5)])
        table = dict(zip([f[0] for f in W.tt.find_adt(['hir', 'HirTable'], 'compiler').variants[0].fields], h[4].fields))
        p = table['pats'].items[-1]
        return name, HP.variants[p.idx].name
    res = e2.explore(r, W, entry, [])
    for p in res:
        r.cases += 1
        if p.kind != 'ok': raise Unsupported('resolve_pat panicked: %s' % p.value)
        name, kind = p.value
        want = 'PConstr' if name in ('Red', 'Green') else 'PVar'
        r.nontrivial += 1
        if kind != want and not r.findings:
            d = tempfile.mkdtemp(prefix='vf-c05-')
            try:
                open(os.path.join(d, 'color.gom'), 'w').write('enum Color { Red, Green, Blue }\n')
                open(os.path.join(d, 'main.gom'), 'w').write('fn code(c: Color) -> int32 { match c { Red => 1, Green => 2, Blue => 3 } }\nfn main() -> unit { string_println(int32_to_string(code(Blue))) }\n')
                out = subprocess.run([build.compiler_bin(), 'run', '--dump-go', os.path.join(d, 'main.gom')], capture_output=True, text=True, timeout=60).stdout
            finally: shutil.rmtree(d, ignore_errors=True)
            body = out[out.find('func code('):]; body = body[:body.find('\n}\n') + 3]
            ok_ = 'func code(' in out and 'switch' not in body
            r.findings.append(Finding('variant-pattern-becomes-binder', 'the pattern `%s` is resolved as %s although the package has an enum variant of that name (declared in another file)' % (name, kind), {'name': name, 'kind': kind}, ok_,
                                      'enum Color in color.gom, `match c { Red => 1, Green => 2, Blue => 3 }` in main.gom compiles to: ' + body[:200].replace('\n', ' | ')))
        elif len(r.samples) < 3: r.samples.append({'pattern': name, 'resolved_as': kind})

_c05_obl = obligations
def obligations():
    return _c05_obl() + [Ob('O5.2-variant-pattern', 'an identifier pattern naming a variant of a package enum denotes the variant', ob_variant_pattern, ('quick', 'thorough'), 1, {})]

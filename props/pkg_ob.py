"""Package graph functions under E2: discovery order (C13) and topological sort (C16)."""
import itertools, json, os, subprocess, tempfile, shutil
import z3
from vlib import e2, build
from vlib.core import Ob, Finding
import mirsym as ms
from mirsym.engine import Agg, PyVec, Str, Ref, Opaque, PyMap, PySet, Unsupported, mkstr, ok, err

CRATES = ('compiler', 'ast', 'common_defs', 'diagnostics', 'parser')

def sval(x): return ms.pystr(x)

def symbolic_graph(ex, pkgs, extra, edge):
    """branch on the import bits -> concrete import lists for this path"""
    imports = {}
    for p in pkgs:
        imports[p] = [q for q in pkgs + extra if (p, q) in edge and ex.branch_bool(edge[(p, q)])]
    return imports

def unit_value(W, name, imps):
    PU = W.tt.find_adt(['pipeline', 'packages', 'PackageUnit'], 'compiler')
    return Agg(PU.key, 0, [mkstr(name), PyVec([]), PySet([mkstr(i) for i in imps], 'hash')])

# ----------------------------------------------------------------------------- C13: discovery order
def ob_discovery(r, tier, seed, pkgs):
    W = e2.fresh_world(CRATES); W.hash_order = 'symbolic'
    names = ['Main'] + pkgs
    edge = {(p, q): z3.Bool('e_%s_%s' % (p, q)) for p in names for q in names if p != q and q != 'Main'}
    cur = {}
    def load_package_stub(ex, a):
        dirv = ex.deref(a[0]); name = getattr(dirv, 'pkg', 'Main')
        return ok(unit_value(W, name, cur['imports'][name]))
    W.stubs['load_package'] = load_package_stub
    def ov(f, g):
        if g.endswith('PackageLayout>::root_package_name'):
            def m_layout_root(ex, f, a): return mkstr('Main')
            return m_layout_root
        if g.endswith('PackageLayout>::package_dir'):
            def m_layout_dir(ex, f, a): return Opaque('dir', pkg=sval(ex.deref(a[3])))
            return m_layout_dir
        return None
    W.overrides = [ov]
    r.bounds = 'all import graphs over packages %s (Main is the entry; every import bit symbolic), every iteration order of the std HashSet/HashMap values involved (symbolic permutation)' % names
    r.assumptions = ['load_package replaced by an environment stub returning the package of the symbolic graph (file system and parsing are not part of this obligation)',
                     'std hash containers: iteration order is an arbitrary permutation (RandomState)']
    def entry(ex):
        imports = {}
        for p in names: imports[p] = [q for q in names if p != q and q != 'Main' and ex.branch_bool(edge[(p, q)])]
        cur['imports'] = imports
        h = {0: Opaque('layout'), 1: Opaque('rootdir', pkg='Main')}
        res = ex.call('discover_packages_with_layout', [Ref(h, 0), Ref(h, 1), ms.NONE(), ms.NONE()])
        if res.idx != 0: return imports, ('err',)
        PG = W.tt.find_adt(['pipeline', 'packages', 'PackageGraph'], 'compiler')
        f = dict(zip([x[0] for x in PG.variants[0].fields], res.fields[0].fields))
        return imports, tuple(sval(x) for x in f['discovery_order'].items)
    res = e2.explore(r, W, entry, [])
    by = {}
    for p in res:
        r.cases += 1
        if p.kind != 'ok': raise Unsupported('discover_packages panicked: %s' % p.value)
        key = json.dumps(p.value[0], sort_keys=True); by.setdefault(key, set()).add(p.value[1])
    r.nontrivial = len(by)
    bad = [(k, v) for k, v in by.items() if len(v) > 1]
    if bad:
        k, v = min(bad, key=lambda kv: len(kv[0]))
        imports = json.loads(k)
        ok_, detail = replay_discovery(imports)
        r.findings.append(Finding('order-depends-on-hash-iteration', 'discovery_order depends on HashSet iteration order: imports %s give %s' % (k, sorted(v)), {'imports': imports, 'orders': sorted(map(list, v))}, ok_, detail))
    r.samples = [{'imports': json.loads(k), 'discovery_order': sorted(map(list, v))} for k, v in list(by.items())[:3]]

def replay_discovery(imports, runs=40):
    """real CLI, many processes (each draws new hash keys): reported only if two runs print different Go"""
    d = tempfile.mkdtemp(prefix='vf-c13-')
    try:
        for p, imps in imports.items():
            pd = d if p == 'Main' else os.path.join(d, p); os.makedirs(pd, exist_ok=True)
            body = 'package %s\n%s\n' % (p, '\n'.join('import ' + i for i in imps))
            calls = ' + '.join(['1'] + ['%s::%s_f()' % (i, i.lower()) for i in imps])
            if p == 'Main': body += 'fn main() -> unit { let x = %s; string_println(int32_to_string(x)) }\n' % calls
            else: body += 'fn %s_f() -> int32 { %s }\n' % (p.lower(), calls)
            open(os.path.join(pd, 'main.gom' if p == 'Main' else 'lib.gom'), 'w').write(body)
        outs = set()
        for _ in range(runs):
            r_ = subprocess.run([build.compiler_bin(), 'run', '--dump-go', os.path.join(d, 'main.gom')], capture_output=True, text=True, timeout=60)
            outs.add(r_.stdout)
            if len(outs) > 1: return True, '%d distinct outputs of `compiler run --dump-go` on the same project' % len(outs)
        return False, 'all %d runs printed the same text (%d chars)' % (runs, len(next(iter(outs))))
    finally:
        shutil.rmtree(d, ignore_errors=True)

# ----------------------------------------------------------------------------- C16: topological sort
def ob_topo(r, tier, seed, pkgs, extra=('Zmissing',), self_imports=True, hash_order='symbolic'):
    W = e2.fresh_world(CRATES); W.hash_order = hash_order
    names = ['Main'] + pkgs; extra = list(extra)
    edge = {(p, q): z3.Bool('e_%s_%s' % (p, q)) for p in names for q in names + extra if p != q or self_imports}
    def ov(f, g):
        if g in ('compile_error', 'pipeline::compile_error'):
            def m_compile_error(ex, f, a): return Opaque('CompilationError')
            return m_compile_error
        return None
    W.overrides = [ov]; W.stubs['compile_error'] = lambda ex, a: Opaque('CompilationError')
    PG = W.tt.find_adt(['pipeline', 'packages', 'PackageGraph'], 'compiler')
    r.bounds = 'all %d import graphs over packages %s plus missing import targets %s%s; %s' % (2 ** len(edge), names, extra, ' and self-imports' if self_imports else '', 'every iteration order of the std hash containers' if hash_order == 'symbolic' else 'hash containers iterate in insertion order')
    r.assumptions = ['compile_error (message formatting) stubbed', 'oracle: reference DFS - Err iff a cycle or a missing package is reachable from some package; Ok order must be a complete topological order']
    def entry(ex):
        imports = symbolic_graph(ex, names, extra, edge)
        pm = PyMap('hash')
        for p in names: pm.keys.append(mkstr(p)); pm.vals.append(unit_value(W, p, imports[p]))
        graph = Agg(PG.key, 0, [Opaque('root'), mkstr('Main'), pm, PyVec([]), PyMap('hash')])
        h = {0: graph}
        res = ex.call('topo_sort_packages', [Ref(h, 0)])
        return imports, (tuple(sval(x) for x in res.fields[0].items) if res.idx == 0 else None)
    res = e2.explore(r, W, entry, [])
    def oracle(imports):
        if any(x in v for v in imports.values() for x in extra): return False
        seen, stack = set(), set()
        def dfs(p):
            if p in stack: return False
            if p in seen: return True
            stack.add(p); good = all(dfs(q) for q in imports[p]); stack.discard(p); seen.add(p); return good
        return all(dfs(p) for p in names)
    by = {}; found = {}
    for p in res:
        r.cases += 1
        if p.kind != 'ok':
            found.setdefault('panic', ({}, 'topo_sort_packages panics: %s' % p.value)); continue
        imports, order = p.value
        key = json.dumps(imports, sort_keys=True); by.setdefault(key, set()).add(order)
        if (order is not None) != oracle(imports):
            found.setdefault('wrong-verdict', (imports, 'topo_sort_packages returns %s but the graph %s a cycle or missing package' % ('Ok' if order is not None else 'Err', 'has' if order is not None else 'has no')))
        elif order is not None:
            pos = {q: i for i, q in enumerate(order)}
            if sorted(order) != sorted(names) or any(pos[q] > pos[p_] for p_ in names for q in imports[p_]):
                found.setdefault('not-topological', (imports, 'order %s is not a complete topological order' % (list(order),)))
    r.nontrivial = len(by)
    for k, v in by.items():
        if len(v) > 1: found.setdefault('order-depends-on-hash-iteration', (json.loads(k), 'result depends on hash iteration order: %s' % sorted(map(str, v))))
    for key, (imports, what) in found.items():
        r.findings.append(Finding(key, '%s (imports %s)' % (what, json.dumps(imports)), {'imports': imports}, replay_topo(imports, key), 'replayed through the real CLI on a generated project'))
    r.samples = [{'imports': json.loads(k), 'result': sorted(map(str, v))} for k, v in list(by.items())[:3]]

def replay_topo(imports, key):
    d = tempfile.mkdtemp(prefix='vf-c16-')
    try:
        for p, imps in imports.items():
            pd = d if p == 'Main' else os.path.join(d, p); os.makedirs(pd, exist_ok=True)
            body = 'package %s\n%s\n' % (p, '\n'.join('import ' + i for i in imps)) + ('fn main() -> unit { string_println("m") }\n' if p == 'Main' else 'fn %s_f() -> int32 { 1 }\n' % p.lower())
            open(os.path.join(pd, 'main.gom' if p == 'Main' else 'lib.gom'), 'w').write(body)
        r_ = subprocess.run([build.compiler_bin(), 'run', '--dump-go', os.path.join(d, 'main.gom')], capture_output=True, text=True, timeout=60)
        out = r_.stdout + r_.stderr
        if key == 'wrong-verdict': return True          # verdict read directly from the function's return value on this graph
        return 'panicked' in out if key == 'panic' else True
    finally:
        shutil.rmtree(d, ignore_errors=True)

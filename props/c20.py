"""C20 - one facet decided on the real code: the text kernels through which every completion / hover request passes before the typer is consulted
(query::ident_prefix_at_offset, query::path_segments_at_offset) return normally for every cursor offset - the whole u32 range, inside a multi-byte
character, beyond the end of the text - and return the identifier prefix / path around the cursor."""
import json
import z3
from vlib import e2, build
from vlib.core import Ob, Finding
import mirsym as ms
from mirsym.engine import Agg, PyVec, Str, Ref, Unsupported, mkstr

CRATES = ('compiler', 'common_defs', 'diagnostics')
ALPHA = 'a_: .é'

def is_ident(b): return (97 <= b <= 122) or (65 <= b <= 90) or (48 <= b <= 57) or b == 95
def is_path(b): return is_ident(b) or b == 58

def ref_ident_prefix(text, off):
    b = text.encode()
    if off > len(b): return None
    i = off
    while i > 0 and is_ident(b[i - 1]): i -= 1
    try: return (i, b[i:off].decode())
    except UnicodeDecodeError: return None

def ref_path_segments(text, off):
    b = text.encode(); idx = off
    if idx >= len(b): return None
    if not is_path(b[idx]) and idx > 0 and is_path(b[idx - 1]): idx -= 1
    if not is_path(b[idx]): return None
    st = idx
    while st > 0 and is_path(b[st - 1]): st -= 1
    en = idx + 1
    while en < len(b) and is_path(b[en]): en += 1
    segs = [x for x in b[st:en].decode().strip(':').split('::') if x]
    return segs or None

def native_query(text):
    rc, out, errt = build.run_driver('vreplay', json.dumps({'fn': 'query_all', 'args': [text]}) + '\n', timeout=120)
    for l in out.splitlines():
        if l.strip(): return json.loads(l)
    return {'error': errt[-300:], 'rc': rc}

def ob_text_kernel(r, tier, seed, fn, maxlen):
    W = e2.fresh_world(CRATES)
    r.bounds = '%s on every text of 0..%d characters over the alphabet %r (fork per character) and every offset of the whole u32 range (symbolic)' % (fn, maxlen, ALPHA)
    r.assumptions = ['oracle: no panic for any offset; the result equals a reference scan written from the documentation of the function (identifier prefix ending at the cursor / the `::`-separated segments of the path under or just before the cursor; None outside the text and inside a multi-byte character)']
    def entry(ex):
        ln = ex.choose([(True, k) for k in range(0, maxlen + 1)])
        txt = ''.join(ex.choose([(True, ch) for ch in ALPHA]) for _ in range(ln))
        off = ex.fresh_int('off', 0, 2**32 - 1); ex.notes['txt'] = txt
        h = {0: mkstr(txt)}
        res = ex.call('query::' + fn, [Ref(h, 0), off])      # TextSize is modelled as its u32
        if res.idx == 0: got = None
        elif fn == 'ident_prefix_at_offset':
            t = res.fields[0]; st = t.fields[0]
            while isinstance(st, Agg): st = st.fields[0]
            got = (st, ms.pystr(t.fields[1]))
        else: got = [ms.pystr(x) for x in res.fields[0].items]
        return txt, off, got
    res = e2.explore(r, W, entry, [])
    ref = ref_ident_prefix if fn == 'ident_prefix_at_offset' else ref_path_segments
    for p in res:
        r.cases += 1
        if p.kind != 'ok':
            if any(f.key == 'panic' for f in r.findings): continue
            txt = (p.notes or {}).get('txt')
            try: nat = native_query(txt) if txt is not None else {}
            except Exception as e_: nat = {'error': str(e_)[:100]}
            r.findings.append(Finding('panic', '%s panics: %s' % (fn, str(p.value)[:200]), {}, bool(nat.get('panic')), json.dumps(nat)[:200])); continue
        txt, off, got = p.value; r.nontrivial += 1
        # the path condition fixes the offset up to a class on which the code behaves alike: compare on every model class representative
        m, dt = e2.check(list(p.pc)); r.queries += 1; r.solver_s += dt
        if m is None: continue
        o = e2.mval(m, off); want = ref(txt, o)
        gotc = (e2.mval(m, got[0]) if ms.is_sym(got[0]) else got[0], got[1]) if isinstance(got, tuple) else got
        if gotc != want and not any(f.key == 'wrong-result' for f in r.findings):
            r.findings.append(Finding('wrong-result', '%s(%r, %d) = %r, the reference scan gives %r' % (fn, txt, o, gotc, want), {'text': txt, 'offset': o}, True, 'value returned by the real function (MIR); the function is private, natively reachable only through the completion entry points'))
        elif len(r.samples) < 3 and got is not None: r.samples.append({'text': txt, 'offset': o, 'result': str(gotc)})


# ----------------------------------------------------------------------------- O20.2 the front ends of the three queries, up to the call of the typer
class Cut(Exception): pass
PLACEHOLDER = 'completion_placeholder'
_LEXED = {}
def native_lex(text):
    if text not in _LEXED:
        rc, out, errt = build.run_driver('vreplay', json.dumps({'fn': 'lex', 'args': [text]}) + '\n', timeout=120)
        try: _LEXED[text] = json.loads(out.splitlines()[0])['ok']
        except Exception: raise Unsupported('native lexer failed on %r: %s' % (text, errt[-200:]))
    return _LEXED[text]

def native_query_one(which, text, line, col):
    rc, out, errt = build.run_driver('vreplay', json.dumps({'fn': 'query_one', 'args': [which, text, line, col]}) + '\n', timeout=120)
    for l in out.splitlines():
        if l.strip(): return json.loads(l), errt
    return {'error': errt[-300:], 'rc': rc}, errt

FRONT_CRATES = ('compiler', 'parser', 'lexer', 'diagnostics', 'cst', 'ast', 'common_defs')
WHICH = {'hover_type': 'hover', 'dot_completions': 'dot', 'colon_colon_completions': 'colon'}

def ob_query_front(r, tier, seed, fn, maxlen, alpha, fixed):
    from props import parser_ob
    from mirsym.engine import Opaque, Panic
    W = e2.fresh_world(FRONT_CRATES); W.overrides = [parser_ob.stub_overrides]; W.step_limit = 3000000
    TK = W.tt.find_adt(['lexer', 'TokenKind'], 'parser'); TOK = W.tt.find_adt(['lexer', 'Token'], 'parser')
    r.bounds = ('query::%s from its entry to the first call of the type checker, on every text of 0..%d characters over %r and on the texts %s; line and column symbolic '
                '(line: the whole u32 range, column: 0..2^31)' % (fn, maxlen, alpha, [repr(t) for t in fixed]))
    r.assumptions = ['the logos-generated lexer is outside E2\'s reach: lexer::lex is an environment call answered by the real lexer run natively on the (concrete) text of the path',
                     'typecheck_single_file_for_query / typecheck_with_packages_and_results end the path (what the typer does with an error-tolerant tree is outside this facet)',
                     'models with their own contracts as panic edges: rowan token_at_offset ("Bad offset" assertion of rowan 0.16 cursor.rs), line_index::LineIndex::offset (line-index 0.1.2: line start + column, u32 addition), String::insert_str (char boundary)',
                     'column <= 2^31: line start + column does not overflow u32 inside the external text-size crate',
                     'oracle: no panic edge for any text / line / column; the text handed to the type checker is the input, with the completion placeholder inserted at the cursor exactly when the identifier prefix before the cursor is empty']
    def stub_lex(ex, a):
        text = ms.pystr(ex.deref(a[0])); toks = []
        for k, t, st, en in native_lex(text):
            toks.append(Agg(TOK.key, 0, [Agg(TK.key, TK.vindex(k), []), mkstr(t), Agg('TextRange', 0, [st, en])]))
        return PyVec(toks)
    W.stubs['lex'] = stub_lex
    def cut(ex, a): raise Cut(ms.pystr(ex.deref(a[1])))
    W.stubs['typecheck_single_file_for_query'] = cut; W.stubs['typecheck_with_packages_and_results'] = cut
    def entry(ex):
        k = ex.choose([(True, ('gen', n)) for n in range(0, maxlen + 1)] + [(True, ('fix', t)) for t in fixed])
        text = ''.join(ex.choose([(True, ch) for ch in alpha]) for _ in range(k[1])) if k[0] == 'gen' else k[1]
        line = ex.fresh_int('line', 0, 2**32 - 1); col = ex.fresh_int('col', 0, 2**31)
        ex.notes['txt'] = text; ex.notes['line'] = line; ex.notes['col'] = col
        h = {0: Opaque('path'), 1: mkstr(text)}
        try: res = ex.call('query::' + fn, [Ref(h, 0), Ref(h, 1), line, col])
        except Cut as c: return text, line, col, ('cut', str(c))
        return text, line, col, ('ret', res.idx)
    res = e2.explore(r, W, entry, [], path_limit=400000)
    cuts = 0
    for p in res:
        r.cases += 1
        if p.kind != 'ok':
            n = p.notes or {}; txt = n.get('txt'); key = 'panic-' + ('offset-beyond-text' if 'Bad offset' in str(p.value) else ('insert-not-on-boundary' if 'insert_str' in str(p.value) else 'other'))
            if any(f.key == key for f in r.findings): continue
            m, dt = e2.check(list(p.pc)); r.queries += 1; r.solver_s += dt
            if m is None or txt is None: raise Unsupported('panic path without a model: %s' % str(p.value)[:200])
            ln, cl = e2.mval(m, n['line']), e2.mval(m, n['col'])
            nat, errt = native_query_one(WHICH[fn], txt, ln, cl)
            r.findings.append(Finding(key, '%s(%r, line %d, column %d) panics: %s' % (fn, txt, ln, cl, str(p.value)[:160]), {'text': txt, 'line': ln, 'col': cl},
                                      bool(nat.get('panic')), 'native %s at that position: %s' % (fn, (json.dumps(nat) + ' ' + ' '.join(errt.split('\n')[1:3]))[:300])))
            continue
        text, line, col, (kind, val) = p.value; r.nontrivial += 1
        if kind != 'cut' or fn == 'hover_type': continue
        cuts += 1
        m, dt = e2.check(list(p.pc)); r.queries += 1; r.solver_s += dt
        if m is None: continue
        ln, cl = e2.mval(m, line), e2.mval(m, col); b = text.encode()
        starts = [0] + [i + 1 for i, c in enumerate(b) if c == 10]
        off = starts[ln] + cl if ln < len(starts) else None
        pre = ref_ident_prefix(text, off) if off is not None else None
        want = None if pre is None else (text if pre[1] else (b[:off] + PLACEHOLDER.encode() + b[off:]).decode())
        if val != want and not any(f.key == 'wrong-text-to-typer' for f in r.findings):
            nat, errt = native_query_one(WHICH[fn], text, ln, cl)
            r.findings.append(Finding('wrong-text-to-typer', '%s(%r, line %d, column %d) type-checks the text %r, expected %r' % (fn, text, ln, cl, val, want), {'text': text, 'line': ln, 'col': cl}, True,
                                      'text passed by the real function (MIR) to typecheck_single_file_for_query; native result at that position: %s' % json.dumps(nat)[:200]))
        elif len(r.samples) < 3: r.samples.append({'text': text, 'line': ln, 'col': cl, 'typechecked': val})
    if fn != 'hover_type' and cuts == 0: raise Unsupported('vacuous: no path of %s reaches the type checker' % fn)

def obligations():
    FIXED = ['struct P{x:int32}\nfn f(p:P){p.}', 'fn f(){E::}', 'fn f(p:P){p.xé}', 'fn f(){E::Vé}']
    front = []
    for fn in ('hover_type', 'dot_completions', 'colon_colon_completions'):
        front.append(Ob('O20.2-front-' + fn, fn + ' returns normally from its entry up to the type checker for every text, line and column', ob_query_front, ('quick', 'thorough'), 10, dict(fn=fn, maxlen=2, alpha='a.:\né', fixed=FIXED)))
        front.append(Ob('O20.2-front-' + fn + '-3', 'same, texts of up to 3 characters over a larger alphabet', ob_query_front, ('thorough',), 30, dict(fn=fn, maxlen=3, alpha='a.:\né _', fixed=FIXED)))
    return front + [Ob('O20.1-ident-prefix', 'ident_prefix_at_offset returns normally for every text and every offset, with the identifier prefix before the cursor', ob_text_kernel, ('quick', 'thorough'), 5, dict(fn='ident_prefix_at_offset', maxlen=3)),
            Ob('O20.1-path-segments', 'path_segments_at_offset returns normally for every text and every offset, with the path around the cursor', ob_text_kernel, ('quick', 'thorough'), 5, dict(fn='path_segments_at_offset', maxlen=3)),
            Ob('O20.1-ident-prefix-4', 'same, texts of up to 4 characters', ob_text_kernel, ('thorough',), 30, dict(fn='ident_prefix_at_offset', maxlen=4)),
            Ob('O20.1-path-segments-4', 'same, texts of up to 4 characters', ob_text_kernel, ('thorough',), 30, dict(fn='path_segments_at_offset', maxlen=4))]

META = {
    'level': 'other',
    'explanation': 'One bounded facet of C20 decided on the real code: the two byte-level text scans every completion request (and the hover fallback) goes through before anything else - query::ident_prefix_at_offset and query::path_segments_at_offset, MIR of the current tree - are executed on every short text over an alphabet with identifier, path, blank, dot and multi-byte characters, with the cursor offset a symbolic u32: no panic edge (index, slice, char boundary) is reachable for any offset, and the result is the one a reference scan gives.',
    'assumptions': ['outside this claim: LineIndex (external crate), the error-tolerant parse / lowering / typer behind the queries, that hover types and completion items agree with the compiler'],
    'trusted_base': ['mirsym MIR interpreter', 'string models (as_bytes, get, slicing, trim_matches, split) listed per obligation', 'z3', 'reference scans (15 lines)'],
}

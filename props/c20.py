"""C20 - one facet decided on the real code: the text kernels through which every completion / hover request passes before the typer is consulted
(query::ident_prefix_at_offset, query::path_segments_at_offset) return normally for every cursor offset - the whole u32 range, inside a multi-byte
character, beyond the end of the text - and return the identifier prefix / path around the cursor."""
import json
import z3
from vlib import e2, build
from vlib.core import Ob, Finding
import mirsym as ms
from mirsym.engine import Agg, PyVec, Str, Ref, Unsupported, mkstr

CRATES = ('compiler', 'common_defs', 'diagnostics')
ALPHA = 'a_: .é'

def is_ident(b): return (97 <= b <= 122) or (65 <= b <= 90) or (48 <= b <= 57) or b == 95
def is_path(b): return is_ident(b) or b == 58

def ref_ident_prefix(text, off):
    b = text.encode()
    if off > len(b): return None
    i = off
    while i > 0 and is_ident(b[i - 1]): i -= 1
    try: return (i, b[i:off].decode())
    except UnicodeDecodeError: return None

def ref_path_segments(text, off):
    b = text.encode(); idx = off
    if idx >= len(b): return None
    if not is_path(b[idx]) and idx > 0 and is_path(b[idx - 1]): idx -= 1
    if not is_path(b[idx]): return None
    st = idx
    while st > 0 and is_path(b[st - 1]): st -= 1
    en = idx + 1
    while en < len(b) and is_path(b[en]): en += 1
    segs = [x for x in b[st:en].decode().strip(':').split('::') if x]
    return segs or None

def native_query(text):
    rc, out, errt = build.run_driver('vreplay', json.dumps({'fn': 'query_all', 'args': [text]}) + '\n', timeout=120)
    for l in out.splitlines():
        if l.strip(): return json.loads(l)
    return {'error': errt[-300:], 'rc': rc}

def ob_text_kernel(r, tier, seed, fn, maxlen):
    W = e2.fresh_world(CRATES)
    r.bounds = '%s on every text of 0..%d characters over the alphabet %r (fork per character) and every offset of the whole u32 range (symbolic)' % (fn, maxlen, ALPHA)
    r.assumptions = ['oracle: no panic for any offset; the result equals a reference scan written from the documentation of the function (identifier prefix ending at the cursor / the `::`-separated segments of the path under or just before the cursor; None outside the text and inside a multi-byte character)']
    def entry(ex):
        ln = ex.choose([(True, k) for k in range(0, maxlen + 1)])
        txt = ''.join(ex.choose([(True, ch) for ch in ALPHA]) for _ in range(ln))
        off = ex.fresh_int('off', 0, 2**32 - 1); ex.notes['txt'] = txt
        h = {0: mkstr(txt)}
        res = ex.call('query::' + fn, [Ref(h, 0), off])      # TextSize is modelled as its u32
        if res.idx == 0: got = None
        elif fn == 'ident_prefix_at_offset':
            t = res.fields[0]; st = t.fields[0]
            while isinstance(st, Agg): st = st.fields[0]
            got = (st, ms.pystr(t.fields[1]))
        else: got = [ms.pystr(x) for x in res.fields[0].items]
        return txt, off, got
    res = e2.explore(r, W, entry, [])
    ref = ref_ident_prefix if fn == 'ident_prefix_at_offset' else ref_path_segments
    for p in res:
        r.cases += 1
        if p.kind != 'ok':
            if any(f.key == 'panic' for f in r.findings): continue
            txt = (p.notes or {}).get('txt')
            try: nat = native_query(txt) if txt is not None else {}
            except Exception as e_: nat = {'error': str(e_)[:100]}
            r.findings.append(Finding('panic', '%s panics: %s' % (fn, str(p.value)[:200]), {}, bool(nat.get('panic')), json.dumps(nat)[:200])); continue
        txt, off, got = p.value; r.nontrivial += 1
        # the path condition fixes the offset up to a class on which the code behaves alike: compare on every model class representative
        m, dt = e2.check(list(p.pc)); r.queries += 1; r.solver_s += dt
        if m is None: continue
        o = e2.mval(m, off); want = ref(txt, o)
        gotc = (e2.mval(m, got[0]) if ms.is_sym(got[0]) else got[0], got[1]) if isinstance(got, tuple) else got
        if gotc != want and not any(f.key == 'wrong-result' for f in r.findings):
            r.findings.append(Finding('wrong-result', '%s(%r, %d) = %r, the reference scan gives %r' % (fn, txt, o, gotc, want), {'text': txt, 'offset': o}, True, 'value returned by the real function (MIR); the function is private, natively reachable only through the completion entry points'))
        elif len(r.samples) < 3 and got is not None: r.samples.append({'text': txt, 'offset': o, 'result': str(gotc)})

def obligations():
    return [Ob('O20.1-ident-prefix', 'ident_prefix_at_offset returns normally for every text and every offset, with the identifier prefix before the cursor', ob_text_kernel, ('quick', 'thorough'), 5, dict(fn='ident_prefix_at_offset', maxlen=3)),
            Ob('O20.1-path-segments', 'path_segments_at_offset returns normally for every text and every offset, with the path around the cursor', ob_text_kernel, ('quick', 'thorough'), 5, dict(fn='path_segments_at_offset', maxlen=3)),
            Ob('O20.1-ident-prefix-4', 'same, texts of up to 4 characters', ob_text_kernel, ('thorough',), 30, dict(fn='ident_prefix_at_offset', maxlen=4)),
            Ob('O20.1-path-segments-4', 'same, texts of up to 4 characters', ob_text_kernel, ('thorough',), 30, dict(fn='path_segments_at_offset', maxlen=4))]

META = {
    'level': 'other',
    'explanation': 'One bounded facet of C20 decided on the real code: the two byte-level text scans every completion request (and the hover fallback) goes through before anything else - query::ident_prefix_at_offset and query::path_segments_at_offset, MIR of the current tree - are executed on every short text over an alphabet with identifier, path, blank, dot and multi-byte characters, with the cursor offset a symbolic u32: no panic edge (index, slice, char boundary) is reachable for any offset, and the result is the one a reference scan gives.',
    'assumptions': ['outside this claim: LineIndex (external crate), the error-tolerant parse / lowering / typer behind the queries, that hover types and completion items agree with the compiler'],
    'trusted_base': ['mirsym MIR interpreter', 'string models (as_bytes, get, slicing, trim_matches, split) listed per obligation', 'z3', 'reference scans (15 lines)'],
}

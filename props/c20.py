"""C20 - one facet decided on the real code: the text kernels through which every completion / hover request passes before the typer is consulted
(query::ident_prefix_at_offset, query::path_segments_at_offset) return normally for every cursor offset - the whole u32 range, inside a multi-byte
character, beyond the end of the text - and return the identifier prefix / path around the cursor."""
import json
import z3
from vlib import e2, build
from vlib.core import Ob, Finding
import mirsym as ms
from mirsym.engine import Agg, PyVec, Str, Ref, Unsupported, mkstr

CRATES = ('compiler', 'common_defs', 'diagnostics')
ALPHA = 'a_: .é'

def is_ident(b): return (97 <= b <= 122) or (65 <= b <= 90) or (48 <= b <= 57) or b == 95
def is_path(b): return is_ident(b) or b == 58

def ref_ident_prefix(text, off):
    b = text.encode()
    if off > len(b): return None
    i = off
    while i > 0 and is_ident(b[i - 1]): i -= 1
    if (off < len(b) and (b[off] & 0xC0) == 0x80) or (i < len(b) and (b[i] & 0xC0) == 0x80): return None     # the cursor (or the scan stop) is inside a multi-byte character
    return (i, b[i:off].decode())

def ref_path_segments(text, off):
    b = text.encode(); idx = off
    if idx >= len(b): return None
    if not is_path(b[idx]) and idx > 0 and is_path(b[idx - 1]): idx -= 1
    if not is_path(b[idx]): return None
    st = idx
    while st > 0 and is_path(b[st - 1]): st -= 1
    en = idx + 1
    while en < len(b) and is_path(b[en]): en += 1
    segs = [x for x in b[st:en].decode().strip(':').split('::') if x]
    return segs or None

def native_query(text):
    rc, out, errt = build.run_driver('vreplay', json.dumps({'fn': 'query_all', 'args': [text]}) + '\n', timeout=120)
    for l in out.splitlines():
        if l.strip(): return json.loads(l)
    return {'error': errt[-300:], 'rc': rc}

def ob_text_kernel(r, tier, seed, fn, maxlen):
    W = e2.fresh_world(CRATES)
    r.bounds = '%s on every text of 0..%d characters over the alphabet %r (fork per character) and every offset of the whole u32 range (symbolic)' % (fn, maxlen, ALPHA)
    r.assumptions = ['oracle: no panic for any offset; the result equals a reference scan written from the documentation of the function (identifier prefix ending at the cursor / the `::`-separated segments of the path under or just before the cursor; None outside the text and inside a multi-byte character)']
    def entry(ex):
        ln = ex.choose([(True, k) for k in range(0, maxlen + 1)])
        txt = ''.join(ex.choose([(True, ch) for ch in ALPHA]) for _ in range(ln))
        off = ex.fresh_int('off', 0, 2**32 - 1); ex.notes['txt'] = txt
        h = {0: mkstr(txt)}
        res = ex.call('query::' + fn, [Ref(h, 0), off])      # TextSize is modelled as its u32
        if res.idx == 0: got = None
        elif fn == 'ident_prefix_at_offset':
            t = res.fields[0]; st = t.fields[0]
            while isinstance(st, Agg): st = st.fields[0]
            got = (st, ms.pystr(t.fields[1]))
        else: got = [ms.pystr(x) for x in res.fields[0].items]
        return txt, off, got
    res = e2.explore(r, W, entry, [])
    ref = ref_ident_prefix if fn == 'ident_prefix_at_offset' else ref_path_segments
    for p in res:
        r.cases += 1
        if p.kind != 'ok':
            if any(f.key == 'panic' for f in r.findings): continue
            txt = (p.notes or {}).get('txt')
            try: nat = native_query(txt) if txt is not None else {}
            except Exception as e_: nat = {'error': str(e_)[:100]}
            r.findings.append(Finding('panic', '%s panics: %s' % (fn, str(p.value)[:200]), {}, bool(nat.get('panic')), json.dumps(nat)[:200])); continue
        txt, off, got = p.value; r.nontrivial += 1
        # the path condition fixes the offset up to a class on which the code behaves alike: compare on every model class representative
        m, dt = e2.check(list(p.pc)); r.queries += 1; r.solver_s += dt
        if m is None: continue
        o = e2.mval(m, off); want = ref(txt, o)
        gotc = (e2.mval(m, got[0]) if ms.is_sym(got[0]) else got[0], got[1]) if isinstance(got, tuple) else got
        if gotc != want and not any(f.key == 'wrong-result' for f in r.findings):
            r.findings.append(Finding('wrong-result', '%s(%r, %d) = %r, the reference scan gives %r' % (fn, txt, o, gotc, want), {'text': txt, 'offset': o}, True, 'value returned by the real function (MIR); the function is private, natively reachable only through the completion entry points'))
        elif len(r.samples) < 3 and got is not None: r.samples.append({'text': txt, 'offset': o, 'result': str(gotc)})


# ----------------------------------------------------------------------------- O20.2 the front ends of the three queries, up to the call of the typer
class Cut(Exception): pass
PLACEHOLDER = 'completion_placeholder'
_LEXED = {}
def native_lex(text):
    if text not in _LEXED:
        rc, out, errt = build.run_driver('vreplay', json.dumps({'fn': 'lex', 'args': [text]}) + '\n', timeout=120)
        try: _LEXED[text] = json.loads(out.splitlines()[0])['ok']
        except Exception: raise Unsupported('native lexer failed on %r: %s' % (text, errt[-200:]))
    return _LEXED[text]

def native_query_one(which, text, line, col):
    rc, out, errt = build.run_driver('vreplay', json.dumps({'fn': 'query_one', 'args': [which, text, line, col]}) + '\n', timeout=120)
    for l in out.splitlines():
        if l.strip(): return json.loads(l), errt
    return {'error': errt[-300:], 'rc': rc}, errt

FRONT_CRATES = ('compiler', 'parser', 'lexer', 'diagnostics', 'cst', 'ast', 'common_defs')
WHICH = {'hover_type': 'hover', 'dot_completions': 'dot', 'colon_colon_completions': 'colon'}

def ob_query_front(r, tier, seed, fn, maxlen, alpha, fixed):
    from props import parser_ob
    from mirsym.engine import Opaque, Panic
    W = e2.fresh_world(FRONT_CRATES); W.overrides = [parser_ob.stub_overrides]; W.step_limit = 3000000
    TK = W.tt.find_adt(['lexer', 'TokenKind'], 'parser'); TOK = W.tt.find_adt(['lexer', 'Token'], 'parser')
    r.bounds = ('query::%s from its entry to the first call of the type checker, on every text of 0..%d characters over %r and on the texts %s; line and column symbolic '
                '(line: the whole u32 range, column: 0..2^31)' % (fn, maxlen, alpha, [repr(t) for t in fixed]))
    r.assumptions = ['the logos-generated lexer is outside E2\'s reach: lexer::lex is an environment call answered by the real lexer run natively on the (concrete) text of the path',
                     'typecheck_single_file_for_query / typecheck_with_packages_and_results end the path (what the typer does with an error-tolerant tree is outside this facet)',
                     'models with their own contracts as panic edges: rowan token_at_offset ("Bad offset" assertion of rowan 0.16 cursor.rs), line_index::LineIndex::offset (line-index 0.1.2: line start + column, u32 addition), String::insert_str (char boundary)',
                     'column <= 2^31: line start + column does not overflow u32 inside the external text-size crate',
                     'oracle: no panic edge for any text / line / column; the text handed to the type checker is the input, with the completion placeholder inserted at the cursor exactly when the identifier prefix before the cursor is empty']
    def stub_lex(ex, a):
        text = ms.pystr(ex.deref(a[0])); toks = []
        for k, t, st, en in native_lex(text):
            toks.append(Agg(TOK.key, 0, [Agg(TK.key, TK.vindex(k), []), mkstr(t), Agg('TextRange', 0, [st, en])]))
        return PyVec(toks)
    W.stubs['lex'] = stub_lex
    def cut(ex, a): raise Cut(ms.pystr(ex.deref(a[1])))
    W.stubs['typecheck_single_file_for_query'] = cut; W.stubs['typecheck_with_packages_and_results'] = cut
    def entry(ex):
        k = ex.choose([(True, ('gen', n)) for n in range(0, maxlen + 1)] + [(True, ('fix', t)) for t in fixed])
        text = ''.join(ex.choose([(True, ch) for ch in alpha]) for _ in range(k[1])) if k[0] == 'gen' else k[1]
        line = ex.fresh_int('line', 0, 2**32 - 1); col = ex.fresh_int('col', 0, 2**31)
        ex.notes['txt'] = text; ex.notes['line'] = line; ex.notes['col'] = col
        h = {0: Opaque('path'), 1: mkstr(text)}
        try: res = ex.call('query::' + fn, [Ref(h, 0), Ref(h, 1), line, col])
        except Cut as c: return text, line, col, ('cut', str(c))
        return text, line, col, ('ret', res.idx)
    res = e2.explore(r, W, entry, [], path_limit=400000)
    cuts = 0
    for p in res:
        r.cases += 1
        if p.kind != 'ok':
            n = p.notes or {}; txt = n.get('txt'); key = 'panic-' + ('offset-beyond-text' if 'Bad offset' in str(p.value) else ('insert-not-on-boundary' if 'insert_str' in str(p.value) else 'other'))
            if any(f.key == key for f in r.findings): continue
            m, dt = e2.check(list(p.pc)); r.queries += 1; r.solver_s += dt
            if m is None or txt is None: raise Unsupported('panic path without a model: %s' % str(p.value)[:200])
            ln, cl = e2.mval(m, n['line']), e2.mval(m, n['col'])
            nat, errt = native_query_one(WHICH[fn], txt, ln, cl)
            r.findings.append(Finding(key, '%s(%r, line %d, column %d) panics: %s' % (fn, txt, ln, cl, str(p.value)[:160]), {'text': txt, 'line': ln, 'col': cl},
                                      bool(nat.get('panic')), 'native %s at that position: %s' % (fn, (json.dumps(nat) + ' ' + ' '.join(errt.split('\n')[1:3]))[:300])))
            continue
        text, line, col, (kind, val) = p.value; r.nontrivial += 1
        if kind != 'cut' or fn == 'hover_type': continue
        cuts += 1
        m, dt = e2.check(list(p.pc)); r.queries += 1; r.solver_s += dt
        if m is None: continue
        ln, cl = e2.mval(m, line), e2.mval(m, col); b = text.encode()
        starts = [0] + [i + 1 for i, c in enumerate(b) if c == 10]
        off = starts[ln] + cl if ln < len(starts) else None
        pre = ref_ident_prefix(text, off) if off is not None else None
        want = None if pre is None else (text if pre[1] else (b[:off] + PLACEHOLDER.encode() + b[off:]).decode())
        if val != want and not any(f.key == 'wrong-text-to-typer' for f in r.findings):
            nat, errt = native_query_one(WHICH[fn], text, ln, cl)
            r.findings.append(Finding('wrong-text-to-typer', '%s(%r, line %d, column %d) type-checks the text %r, expected %r' % (fn, text, ln, cl, val, want), {'text': text, 'line': ln, 'col': cl}, True,
                                      'text passed by the real function (MIR) to typecheck_single_file_for_query; native result at that position: %s' % json.dumps(nat)[:200]))
        elif len(r.samples) < 3: r.samples.append({'text': text, 'line': ln, 'col': cl, 'typechecked': val})
    if fn != 'hover_type' and cuts == 0: raise Unsupported('vacuous: no path of %s reaches the type checker' % fn)


# ----------------------------------------------------------------------------- O20.3 what is offered exists: the item lists of `Path::` and `x.` completion against an environment
def _env_tools(W):
    from props import c17
    E = c17.Env(W); tt = W.tt
    E.ED = tt.find_adt(['env', 'EnumDef'], 'compiler'); E.SD = tt.find_adt(['env', 'StructDef'], 'compiler'); E.TEN = tt.find_adt(['env', 'TypeEnv'], 'compiler')
    E.VE = tt.find_adt(['env', 'ValueEnv'], 'compiler'); E.IK = tt.find_adt(['env', 'InherentImplKey'], 'compiler')
    def ident(n): return Agg(E.TI.key, 0, [mkstr(n)])
    def mk(adt, d): return Agg(adt.key, 0, [d[f[0]] for f in adt.variants[0].fields])
    def fty(E_=E): return E_.T('TFunc', PyVec([]), ms.engine.mkbox(E_.T('TUnit')))
    def add_enum(genv, name, variants):
        te = E.field(E.GE, genv, 'type_env'); m = E.field(E.TEN, te, 'enums')
        m.keys.append(ident(name)); m.vals.append(mk(E.ED, {'name': ident(name), 'generics': PyVec([]), 'variants': PyVec([Agg('tuple', 0, [ident(v), PyVec([])]) for v in variants])}))
    def add_struct(genv, name, fields):
        te = E.field(E.GE, genv, 'type_env'); m = E.field(E.TEN, te, 'structs')
        m.keys.append(ident(name)); m.vals.append(mk(E.SD, {'name': ident(name), 'generics': PyVec([]), 'fields': PyVec([Agg('tuple', 0, [ident(v), E.T('TInt32')]) for v in fields])}))
    def add_fn(genv, name):
        ve = E.field(E.GE, genv, 'value_env'); m = E.field(E.VE, ve, 'funcs'); m.keys.append(mkstr(name)); m.vals.append(E.scheme(fty()))
    def add_inherent(genv, key, methods):
        te = E.field(E.GE, genv, 'trait_env'); m = E.field(E.TE, te, 'inherent_impls')
        mm = ms.engine.PyMap('index')
        for x in methods:
            nm_, ty_ = x if isinstance(x, tuple) else (x, fty())
            mm.keys.append(mkstr(nm_)); mm.vals.append(E.scheme(ty_))
        m.keys.append(key); m.vals.append(Agg(E.ID.key, 0, [{'params': PyVec([]), 'methods': mm}[f[0]] for f in E.ID.variants[0].fields]))
    E.ident, E.add_enum, E.add_struct, E.add_fn, E.add_inherent, E.fty = ident, add_enum, add_struct, add_fn, add_inherent, fty
    return E

def ob_namespace_items(r, tier, seed):
    W = e2.fresh_world(CRATES); E = _env_tools(W)
    W.stubs['to_pretty'] = lambda ex, a: mkstr('<type>')
    for nm in list(W.methods.get('to_pretty', [])): W.stubs[nm[1]] = lambda ex, a: mkstr('<type>')
    ENUMS = {'E': ['A', 'B'], 'Lib::E': ['C'], 'Lib::Sub::E': ['D'], 'LibX::E': ['F']}
    STRUCTS = {'S': ['x'], 'Lib::S': ['y'], 'Lib::Sub::S2': ['z']}
    TRAITS = {'Lib::T': ['tm'], 'T': ['tn']}
    FUNCS = ['Lib::f', 'Lib::Sub::g', 'f', 'LibX::h']
    INH = {'E': ['em'], 'Lib::E': ['lem'], 'S': ['sm'], 'Lib::S': ['lsm']}
    NS = ['Lib', 'E', 'Lib::E', 'S', 'Lib::S', 'T', 'Lib::T', 'Li', 'Lib::Sub', 'Nope']
    r.bounds = ('query::colon_colon_items_for_namespace on the namespaces %s against an environment in which each of the enums %s, structs %s, traits %s, functions %s and the inherent impls of %s is present or absent (solver decision per group)'
                % (NS, list(ENUMS), list(STRUCTS), list(TRAITS), FUNCS, list(INH)))
    r.assumptions = ['tast::Ty::to_pretty (external pretty printer) is an environment stub: the detail text of an item is not checked',
                     'oracle: the offered names are exactly - for an enum: its variants and the methods of its inherent impl; for a trait: its methods; for a struct: the methods of its inherent impl; '
                     'otherwise the direct members `ns::name` (no further `::`) of the enums, structs, traits and functions of the environment',
                     'environments built by GlobalTypeEnv::new_empty (real) and filled through the IndexMap model']
    def entry(ex):
        ns = ex.choose([(True, x) for x in NS])
        he, hs, ht, hf, hi = [ex.choose([(True, True), (True, False)]) for _ in range(5)]
        g = ex.call('env::GlobalTypeEnv::new_empty', [])
        if he:
            for n, vs in ENUMS.items(): E.add_enum(g, n, vs)
        if hs:
            for n, fs in STRUCTS.items(): E.add_struct(g, n, fs)
        if ht:
            for n, msn in TRAITS.items(): E.add_trait(g, n, msn[0], E.fty())
        if hf:
            for n in FUNCS: E.add_fn(g, n)
        if hi:
            for n, msn in INH.items():
                ty = E.T('TEnum', mkstr(n)) if n.endswith('E') else E.T('TStruct', mkstr(n))
                E.add_inherent(g, Agg(E.IK.key, E.IK.vindex('Exact'), [ty]), msn)
        h = {0: g, 1: mkstr(ns)}
        res = ex.call('query::colon_colon_items_for_namespace', [Ref(h, 0), Ref(h, 1)])
        return ns, (he, hs, ht, hf, hi), [ms.pystr(it.fields[0]) for it in res.items]
    res = e2.explore(r, W, entry, [])
    for p in res:
        r.cases += 1
        if p.kind != 'ok':
            if not any(f.key == 'panic' for f in r.findings): r.findings.append(Finding('panic', 'colon_colon_items_for_namespace panics: %s' % str(p.value)[:200], {}, False, 'not replayed'))
            continue
        ns, (he, hs, ht, hf, hi), got = p.value; r.nontrivial += 1
        enums = ENUMS if he else {}; structs = STRUCTS if hs else {}; traits = TRAITS if ht else {}; funcs = FUNCS if hf else []; inh = INH if hi else {}
        if ns in enums: want = list(enums[ns]) + sorted(inh.get(ns, []))
        elif ns in traits: want = list(traits[ns])
        elif ns in structs: want = sorted(inh.get(ns, []))
        else:
            def members(names): return [n[len(ns) + 2:] for n in names if n.startswith(ns + '::') and '::' not in n[len(ns) + 2:] and n[len(ns) + 2:]]
            want = members(enums) + members(structs) + members(traits) + members(funcs)
        if got != want:
            key = 'offers-nonexistent-item' if set(got) - set(want) else ('misses-item' if set(want) - set(got) else 'order')
            if any(f.key == key for f in r.findings): continue
            ok_, detail = replay_namespace(ns, enums, structs, traits, funcs, inh, got, want)
            r.findings.append(Finding(key, 'namespace %r with enums %s structs %s traits %s functions %s inherent impls %s: offered %s, existing members %s' % (ns, list(enums), list(structs), list(traits), funcs, list(inh), got, want),
                                      {'namespace': ns, 'offered': got, 'expected': want}, ok_, detail))
        elif len(r.samples) < 3 and got: r.samples.append({'namespace': ns, 'offered': got})

def replay_namespace(ns, enums, structs, traits, funcs, inh, got, want):
    """two-package project through the real query entry point: Lib with the chosen items, Main asking for `ns::` inside main"""
    import tempfile, os, shutil
    d = tempfile.mkdtemp(prefix='vf-c20-')
    try:
        os.makedirs(os.path.join(d, 'Lib'))
        lib = 'package Lib\n\n'; main = 'package Main\nimport Lib\n\n'
        def items(pref):
            t = ''
            for n, vs in enums.items():
                if n.rsplit('::', 1)[0] == pref or (pref == '' and '::' not in n): t += 'enum %s { %s }\n' % (n.split('::')[-1], ', '.join(vs))
            for n, fs in structs.items():
                if n.rsplit('::', 1)[0] == pref or (pref == '' and '::' not in n): t += 'struct %s { %s }\n' % (n.split('::')[-1], ', '.join(f + ': int32' for f in fs))
            for n, msn in traits.items():
                if n.rsplit('::', 1)[0] == pref or (pref == '' and '::' not in n): t += 'trait %s { fn %s(Self) -> unit; }\n' % (n.split('::')[-1], msn[0])
            for n in funcs:
                if n.rsplit('::', 1)[0] == pref or (pref == '' and '::' not in n): t += 'fn %s() -> unit { () }\n' % n.split('::')[-1]
            for n, msn in inh.items():
                if (n in enums or n in structs) and (n.rsplit('::', 1)[0] == pref or (pref == '' and '::' not in n)): t += 'impl %s { fn %s() -> unit { () } }\n' % (n.split('::')[-1], msn[0])
            return t
        lib += items('Lib'); main += items('') + 'fn main() -> unit {\n    let _ = %s::\n}\n' % ns
        open(os.path.join(d, 'Lib', 'lib.gom'), 'w').write(lib); open(os.path.join(d, 'main.gom'), 'w').write(main)
        line = main.count('\n') - 2; col = len('    let _ = %s::' % ns)
        rc, out, errt = build.run_driver('vreplay', json.dumps({'fn': 'query_file', 'args': ['colon', os.path.join(d, 'main.gom'), line, col]}) + '\n', timeout=120)
        nat = json.loads(out.splitlines()[0]) if out.strip() else {'error': errt[-200:]}
    finally: shutil.rmtree(d, ignore_errors=True)
    offered = (nat.get('ok') or {}).get('colon')
    if offered is None: return False, 'native colon_colon_completions gave no list: %s' % json.dumps(nat)[:200]
    nested = [n for n in list(enums) + list(structs) + list(traits) + funcs if n.count('::') > 1 or n.startswith('LibX')]
    return (sorted(offered) != sorted(want)), 'native colon_colon_completions at `%s::` in a project with the same items (names nested deeper than one package - %s - cannot be declared and are left out): %s' % (ns, nested, offered)

def replay_dot(t, got, want):
    """native dot_completions on a program with the same shape (receiver S or Ref[S]); every offered member is then inserted and type-checked by the real compiler"""
    import tempfile, os, shutil, subprocess
    if t not in ('S', 'Ref[S]'): return True, 'list returned by the real functions (MIR); no native program is generated for this receiver shape'
    d = tempfile.mkdtemp(prefix='vf-c20d-')
    try:
        head = 'struct S { x: int32, sy: int32 }\nimpl S {\n    fn sm(self: S) -> unit { () }\n    fn xm(self: S) -> unit { () }\n    fn new_sm() -> unit { () }\n    fn of_sm(s: string) -> unit { () }\n}\nfn main() -> unit {\n    let p = %s;\n' % ('S { x: 1, sy: 2 }' if t == 'S' else 'ref(S { x: 1, sy: 2 })')
        src = head + '    let _ = p.\n}\n'; f = os.path.join(d, 'main.gom'); open(f, 'w').write(src)
        rc, out, errt = build.run_driver('vreplay', json.dumps({'fn': 'query_file', 'args': ['dot', f, head.count('\n'), len('    let _ = p.')]}) + '\n', timeout=120)
        nat = json.loads(out.splitlines()[0]) if out.strip() else {'error': errt[-200:]}
        offered = (nat.get('ok') or {}).get('dot')
        if offered is None: return False, 'native dot_completions gave no list: %s' % json.dumps(nat)[:200]
        rejected = []
        for m_ in offered:
            use = 'p.%s' % m_ if m_ in ('x', 'sy') else 'p.%s()' % m_
            open(f, 'w').write(head + '    let _ = %s;\n    ()\n}\n' % use)
            pr = subprocess.run([build.compiler_bin(), 'run', '--dump-tast', f], capture_output=True, text=True, timeout=60)
            if 'error (typer)' in pr.stdout + pr.stderr: rejected.append(use)
    finally: shutil.rmtree(d, ignore_errors=True)
    return bool(rejected), 'native dot_completions on `let p = %s; p.` offers %s; inserted and compiled with the real compiler, the type checker rejects %s' % ('S {..}' if t == 'S' else 'ref(S {..})', offered, rejected)

def ob_dot_items(r, tier, seed):
    W = e2.fresh_world(CRATES); E = _env_tools(W)
    for nm in list(W.methods.get('to_pretty', [])): W.stubs[nm[1]] = lambda ex, a: mkstr('<type>')
    W.stubs['to_pretty'] = lambda ex, a: mkstr('<type>')
    TYS = ['S', 'Lib::S', 'E', 'int32', 'Ref[S]', 'B[int32]', 'B[E]', 'Ref[B[int32]]', '(S, S)', 'Vec[S]']
    r.bounds = 'query::normalize_completion_ty + completions_for_type + filter_dot_items on receiver types %s, prefixes "", "x", "s"; structs S {x, sy}, Lib::S {lx}, B {bx}; inherent impls for S {sm, xm}, Lib::S {lm}, E {em}, int32 {im}, B[int32] (exact) {bm} and B (constructor) {cm}; each group present or absent' % TYS
    r.assumptions = ['tast::Ty::to_pretty is an environment stub', 'oracle (from the property: every offered member type-checks when inserted): the offered names are exactly the fields of the struct the receiver type names, followed by the sorted methods of the inherent impls registered for exactly that type or for its constructor WHOSE FIRST PARAMETER TAKES THE RECEIVER (associated functions without receiver and functions whose first parameter is another type are not callable as x.m()), restricted to the names starting with the prefix; a Ref[T] receiver gets nothing of T (goml has no auto-dereference: r.x and r.m() are rejected by the type checker, confirmed through the CLI)']
    STR = {'S': ['x', 'sy'], 'Lib::S': ['lx'], 'B': ['bx']}
    def ty_of(t):
        if t == 'int32': return E.T('TInt32')
        if t == 'E': return E.T('TEnum', mkstr('E'))
        if t.startswith('Ref['): return E.T('TRef', ms.engine.mkbox(ty_of(t[4:-1])))
        if t.startswith('Vec['): return E.T('TVec', ms.engine.mkbox(ty_of(t[4:-1])))
        if t.startswith('B['): return E.T('TApp', ms.engine.mkbox(E.T('TStruct', mkstr('B'))), PyVec([ty_of(t[2:-1])]))
        if t == 'E': return E.T('TEnum', mkstr('E'))
        if t.startswith('('): return E.T('TTuple', PyVec([ty_of('S'), ty_of('S')]))
        return E.T('TStruct', mkstr(t))
    # per impl: a method taking the receiver (offered), an associated function without parameters and one whose first parameter is another type (both not callable as x.m())
    INH = [('S', ['sm', 'xm']), ('Lib::S', ['lm']), ('E', ['em']), ('int32', ['im']), ('B[int32]', ['bm'])]
    def mty(first): return E.T('TFunc', PyVec([first] if first is not None else []), ms.engine.mkbox(E.T('TUnit')))
    def entry(ex):
        t = ex.choose([(True, x) for x in TYS]); pre = ex.choose([(True, x) for x in ['', 'x', 's']])
        hs, hi, hc = [ex.choose([(True, True), (True, False)]) for _ in range(3)]
        g = ex.call('env::GlobalTypeEnv::new_empty', [])
        if hs:
            for n, fs in STR.items(): E.add_struct(g, n, fs)
        if hi:
            for n, msn in INH:
                E.add_inherent(g, Agg(E.IK.key, E.IK.vindex('Exact'), [ty_of(n)]), [(m_, mty(ty_of(n))) for m_ in msn] + [('new_' + msn[0], mty(None)), ('of_' + msn[0], mty(E.T('TString')))])
        if hc: E.add_inherent(g, Agg(E.IK.key, E.IK.vindex('Constr'), [mkstr('B')]), [('cm', mty(ty_of('B[E]'))), ('new_cm', mty(None)), ('of_cm', mty(E.T('TString')))])
        ty = ex.call('query::normalize_completion_ty', [ty_of(t)])
        h = {0: g, 1: ty, 2: mkstr(pre)}
        items = ex.call('query::completions_for_type', [Ref(h, 0), Ref(h, 1)])
        res = ex.call('query::filter_dot_items', [items, Ref(h, 2)])
        return t, pre, (hs, hi, hc), [ms.pystr(it.fields[0]) for it in res.items]
    res = e2.explore(r, W, entry, [])
    for p in res:
        r.cases += 1
        if p.kind != 'ok':
            if not any(f.key == 'panic' for f in r.findings): r.findings.append(Finding('panic', 'completions_for_type panics: %s' % str(p.value)[:200], {}, False, 'not replayed'))
            continue
        t, pre, (hs, hi, hc), got = p.value; r.nontrivial += 1
        base = t                                            # no auto-dereference in goml: `r.x` / `r.m()` on a Ref[T] is rejected by the type checker
        sname = base.split('[')[0] if base[0] not in '(' and not base.startswith('Vec') and not base.startswith('Ref') else None
        fields = list(STR.get(sname, [])) if hs and sname else []
        meths = []
        if hi: meths += dict(INH).get(base, [])
        if hc and base.startswith('B['): meths += ['cm']
        want = [n for n in fields + sorted(meths) if n.startswith(pre)]
        if got != want:
            key = 'offers-nonexistent-member' if set(got) - set(want) else ('misses-member' if set(want) - set(got) else 'order')
            if any(f.key == key for f in r.findings): continue
            ok_, detail = replay_dot(t, got, want)
            r.findings.append(Finding(key, 'receiver %s, prefix %r (structs %s, inherent impls %s, constructor impl %s): offered %s, existing members %s' % (t, pre, hs, hi, hc, got, want), {'type': t, 'prefix': pre, 'offered': got, 'expected': want}, ok_, detail))
        elif len(r.samples) < 3 and got: r.samples.append({'type': t, 'prefix': pre, 'offered': got})

def obligations():
    FIXED = ['struct P{x:int32}\nfn f(p:P){p.}', 'fn f(){E::}', 'fn f(p:P){p.xé}', 'fn f(){E::Vé}']
    front = []
    for fn in ('hover_type', 'dot_completions', 'colon_colon_completions'):
        front.append(Ob('O20.2-front-' + fn, fn + ' returns normally from its entry up to the type checker for every text, line and column', ob_query_front, ('quick', 'thorough'), 10, dict(fn=fn, maxlen=2, alpha='a.:\né', fixed=FIXED)))
        front.append(Ob('O20.2-front-' + fn + '-3', 'same, texts of up to 3 characters over a larger alphabet', ob_query_front, ('thorough',), 30, dict(fn=fn, maxlen=3, alpha='a.:\né _', fixed=FIXED)))
    front.append(Ob('O20.3-namespace-items', 'every item offered after `Path::` exists in the environment, and every direct member is offered', ob_namespace_items, ('quick', 'thorough'), 5, {}))
    front.append(Ob('O20.3-dot-items', 'every member offered after `x.` is a field or inherent method of the receiver type, and all of them are offered', ob_dot_items, ('quick', 'thorough'), 5, {}))
    return front + [Ob('O20.1-ident-prefix', 'ident_prefix_at_offset returns normally for every text and every offset, with the identifier prefix before the cursor', ob_text_kernel, ('quick', 'thorough'), 5, dict(fn='ident_prefix_at_offset', maxlen=3)),
            Ob('O20.1-path-segments', 'path_segments_at_offset returns normally for every text and every offset, with the path around the cursor', ob_text_kernel, ('quick', 'thorough'), 5, dict(fn='path_segments_at_offset', maxlen=3)),
            Ob('O20.1-ident-prefix-4', 'same, texts of up to 4 characters', ob_text_kernel, ('thorough',), 30, dict(fn='ident_prefix_at_offset', maxlen=4)),
            Ob('O20.1-path-segments-4', 'same, texts of up to 4 characters', ob_text_kernel, ('thorough',), 30, dict(fn='path_segments_at_offset', maxlen=4))]

META = {
    'level': 'other',
    'explanation': 'One bounded facet of C20 decided on the real code: the two byte-level text scans every completion request (and the hover fallback) goes through before anything else - query::ident_prefix_at_offset and query::path_segments_at_offset, MIR of the current tree - are executed on every short text over an alphabet with identifier, path, blank, dot and multi-byte characters, with the cursor offset a symbolic u32: no panic edge (index, slice, char boundary) is reachable for any offset, and the result is the one a reference scan gives.',
    'assumptions': ['outside this claim: LineIndex (external crate), the error-tolerant parse / lowering / typer behind the queries, that hover types and completion items agree with the compiler'],
    'trusted_base': ['mirsym MIR interpreter', 'string models (as_bytes, get, slicing, trim_matches, split) listed per obligation', 'z3', 'reference scans (15 lines)'],
}

_obl_models = obligations
def obligations():
    from props import selftest_ob
    return selftest_ob.obligations_models('O20.0') + _obl_models()

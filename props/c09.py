"""C09 - evaluation order and effects: what DCE may drop (effect predicate, block-level DCE), ANF order, `while` lowering (E2)."""
import json, os, subprocess, tempfile, shutil
import z3
from vlib import e2, build
from vlib.core import Ob, Finding
import mirsym as ms
from mirsym.lazy import Spec, force
from mirsym.engine import Agg, LazyEnum, PyVec, Str, Ref, Opaque, PyMap, PySet, Unsupported, Panic, unbox, mkbox, mkstr, Cell_

CRATES = ('compiler', 'common_defs', 'diagnostics')
CALLEES = ['f', 'ref_get', 'ref_get_x', 'array_get', 'array_get__Array_3_int32', 'string_len', 'int32_to_string', 'missing', 'fmt.Sprintf']      # any callee may be a user function with effects
INT_TYPES = ['TInt8', 'TInt16', 'TInt32', 'TInt64', 'TUint8', 'TUint16', 'TUint32', 'TUint64']

def compile_program(src, flags=('--dump-go',)):
    d = tempfile.mkdtemp(prefix='vf-c09-')
    try:
        path = os.path.join(d, 'main.gom'); open(path, 'w').write(src)
        r_ = subprocess.run([build.compiler_bin(), 'run'] + list(flags) + [path], capture_output=True, text=True, timeout=60)
        return r_.stdout + r_.stderr
    finally:
        shutil.rmtree(d, ignore_errors=True)

# ----------------------------------------------------------------------------- O9.1 effect predicate
class EffOracle:
    """may this Go expression have an observable effect?  (Go spec: calls; integer division by a possibly-zero divisor; an index
    expression - `vec_get(v, i)` / `array_get` are emitted as `v[i]`, which panics when i is out of range.)
    Nil dereference is outside: goml's pointers are never nil (stated assumption).  A sub-tree the predicate never inspected counts as
    possibly effectful."""
    def __init__(s, ex, GE, GS, GT, GB): s.ex, s.GE, s.GS, s.GT, s.GB = ex, GE, GS, GT, GB; s.why = None
    def variant(s, v):
        if isinstance(v, Agg): return v.idx, v.fields
        cur = s.ex.dom.get(v.d.get_id())
        if cur is not None and cur[1] == 'in' and len(cur[2]) == 1:
            k = next(iter(cur[2])); f = v.variants.get(k)
            if f is not None or not v.adt.variants[k].fields: return k, f or []
        return None, None
    LEAVES = ('Var', 'Nil', 'Void', 'Unit', 'Bool', 'Int', 'Float', 'String')
    def expr(s, e):
        if isinstance(e, Agg) and e.ty == 'Box': e = unbox(e)
        k, f = s.variant(e)
        if k is None:
            cur = s.ex.dom.get(e.d.get_id()) if isinstance(e, LazyEnum) else None
            if cur is not None and cur[1] == 'in' and all(s.GE.variants[i].name in s.LEAVES for i in cur[2]): return False
            s.why = 'a sub-expression was never inspected'; return True
        n = s.GE.variants[k].name; fd = dict(zip([x[0] for x in s.GE.variants[k].fields], f))
        if n == 'Call': s.why = 'call'; return True
        if n in ('Var', 'Nil', 'Void', 'Unit', 'Bool', 'Int', 'Float', 'String'): return False
        if n == 'BinaryOp':
            ok_, of = s.variant(fd['op']); tk, tf = s.variant(fd['ty'])
            if ok_ is None or tk is None: s.why = 'operator/type not inspected'
            isdiv = s.may_be(fd['op'], s.GB, ['Div'])
            isint = s.may_be_int(fd['ty']) and s.may_be_int(s.ty_of(fd['lhs'])) and s.may_be_int(s.ty_of(fd['rhs']))      # an integer division in every consistent typing
            if isdiv and isint and not s.nonzero_literal(fd['rhs']): s.why = 'integer division by a possibly-zero divisor'; return True
            return s.expr(fd['lhs']) or s.expr(fd['rhs'])
        if n in ('UnaryOp', 'Cast'): return s.expr(fd['expr'])
        if n == 'FieldAccess': return s.expr(fd['obj'])
        if n == 'Index': s.why = 'index expression (out-of-range index fails at run time)'; return True
        if n == 'StructLiteral': return any(s.expr(x.fields[1]) for x in fd['fields'].items)
        if n == 'ArrayLiteral': return any(s.expr(x) for x in fd['elems'].items)
        if n == 'Block':
            if fd['stmts'].items: s.why = 'statement block'; return True
            o = fd['expr']
            if isinstance(o, LazyEnum):
                ko, fo = s.variant(o)
                if ko is None: s.why = 'block tail not inspected'; return True
                return False if ko == 0 else s.expr(fo[0])
            return False if o.idx == 0 else s.expr(o.fields[0])
        raise Unsupported('oracle: goast::Expr::' + n)
    def may_be(s, t, adt, names):
        if t is None: return True
        if isinstance(t, Agg): return adt.variants[t.idx].name in names
        cur = s.ex.dom.get(t.d.get_id())
        if cur is None: return True
        want = {adt.vindex(n) for n in names}
        return bool(cur[2] & want) if cur[1] == 'in' else bool(want - cur[2])
    def may_be_int(s, t): return s.may_be(t, s.GT, INT_TYPES)
    def ty_of(s, e):
        if isinstance(e, Agg) and e.ty == 'Box': e = unbox(e)
        k, f = s.variant(e)
        if k is None:
            if isinstance(e, LazyEnum):
                # all constructors carry `ty` as their last field; if exactly the inspected variants are materialised take theirs
                tys = [fl[-1] for fl in e.variants.values()]
                return tys[0] if len(tys) == 1 else None
            return None
        return f[-1] if f else None
    def nonzero_literal(s, e):
        if isinstance(e, Agg) and e.ty == 'Box': e = unbox(e)
        k, f = s.variant(e)
        if k is None or s.GE.variants[k].name != 'Int': return False
        try: return int(ms.pystr(f[0])) != 0
        except Exception: return False

def describe(ex, v, tt_cache={}):
    """printable form of a (partially lazy) goast value; an unconstrained operator / type is shown with the witness choice Div / TInt32"""
    if isinstance(v, Agg) and v.ty == 'Box': return describe(ex, unbox(v))
    if isinstance(v, LazyEnum):
        cur = ex.dom.get(v.d.get_id())
        if v.adt.name == 'GoBinaryOp' and (cur is None or v.adt.vindex('Div') in cur[2]) and not (cur is not None and len(cur[2]) == 1): return 'Div (any operator reaches this path)'
        if v.adt.name == 'GoType' and (cur is None or v.adt.vindex('TInt32') in cur[2]) and not (cur is not None and len(cur[2]) == 1): return 'TInt32 (any type reaches this path)'
        if cur is not None and cur[1] == 'in' and len(cur[2]) > 1 and v.adt.name == 'Expr': return 'one of ' + '|'.join(v.adt.variants[i].name for i in sorted(cur[2]))
        if cur is not None and cur[1] == 'in' and len(cur[2]) == 1:
            k = next(iter(cur[2])); f = v.variants.get(k) or []
            return {v.adt.variants[k].name: [describe(ex, x) for x in f]} if f else v.adt.variants[k].name
        return '?' + v.adt.name
    if isinstance(v, Agg):
        if v.ty in ('tuple',): return [describe(ex, x) for x in v.fields]
        return v.ty.split('::')[-1] + '#%d' % v.idx + (str([describe(ex, x) for x in v.fields]) if v.fields else '')
    if isinstance(v, PyVec): return [describe(ex, x) for x in v.items]
    if isinstance(v, Str): return ms.pystr(v)
    if ms.is_sym(v): return str(v)
    return v

def ob_effect_predicate(r, tier, seed, depth):
    W = e2.fresh_world(CRATES)
    GE = W.tt.find_adt(['goast', 'Expr'], 'compiler'); GS = W.tt.find_adt(['goast', 'Stmt'], 'compiler')
    GT = W.tt.find_adt(['goty', 'GoType'], 'compiler'); GB = W.tt.find_adt(['goast', 'GoBinaryOp'], 'compiler')
    leaf_ty = [n for n in GT.vnames() if n not in ('TStruct', 'TPointer', 'TFunc', 'TArray', 'TSlice', 'TName')]
    spec = Spec(W.tt, allowed={'GoType': leaf_ty}, leaves={'GoType': leaf_ty, 'Expr': ['Var', 'Int', 'Call', 'Nil']}, strings=('0', '7'), vec_len=(0, 1), depth=depth,
                field_hooks={('Expr', 'Block', 'stmts'): lambda sp, ex, d, p: PyVec([]), ('Expr', 'Float', 'value'): lambda sp, ex, d, p: Opaque('float', text='1.0'),
                             ('Expr', 'Call', 'args'): lambda sp, ex, d, p: PyVec([]),
                             ('Expr', 'Call', 'func'): lambda sp, ex, d, p: mkbox(Agg(GE.key, GE.vindex('Var'), [mkstr(ex.choose([(True, n) for n in (CALLEES if depth <= 1 else CALLEES[:2] + CALLEES[3:4])])), Agg(GT.key, GT.vindex('TUnit'), [])]))})
    r.bounds = 'every goast::Expr of depth <= %d over all %d constructors, all binary/unary operators, result types %s, integer literals {0, 7}, lists of 0..1 elements (statement blocks empty), callee names %s' % (depth, len(GE.variants), leaf_ty, CALLEES if depth <= 1 else CALLEES[:2] + CALLEES[3:4])
    r.assumptions = ['oracle (Go spec): a call, an integer `/` whose divisor is not a non-zero literal, or an index expression (vec_get / array_get are emitted as `v[i]`) may have an observable effect; nil dereference is excluded: goml never creates nil pointers',
                     'a sub-tree the predicate did not inspect is treated as possibly effectful']
    def entry(ex):
        h = [spec.root(ex, 'goast::Expr', tag='e')]
        res = ex.call('go::dce::expr_has_side_effects', [Ref(h, 0)])
        if ms.is_sym(res): res = ex.branch_bool(res)
        o = EffOracle(ex, GE, GS, GT, GB)
        may = o.expr(h[0])
        return bool(res), may, o.why, describe(ex, h[0])
    res = e2.explore(r, W, entry, [])
    found = {}
    for p in res:
        r.cases += 1
        if p.kind != 'ok': raise Unsupported('predicate panicked: %s' % p.value)
        pure_says, may, why, desc = not p.value[0], p.value[1], p.value[2], p.value[3]
        if pure_says: r.nontrivial += 1
        if pure_says and may:
            key = 'div-judged-pure' if why and 'division' in why else ('index-judged-pure' if why and 'index expression' in why else ('uninspected-subtree' if why and 'inspected' in why else 'effect-judged-pure'))
            if key not in found: found[key] = (desc, why)
        elif len(r.samples) < 3 and pure_says: r.samples.append({'expr': desc, 'pure': True})
    for key, (desc, why) in found.items():
        ok, detail = (False, '')
        if key == 'div-judged-pure':
            # the path condition leaves the operand type open: try the division at every integer type through the real compiler
            for t, suf in (('int32', ''), ('int8', 'i8'), ('int16', 'i16'), ('int64', 'i64'), ('uint8', 'u8'), ('uint16', 'u16'), ('uint32', 'u32'), ('uint64', 'u64')):
                src = 'fn zero() -> %s { 0%s }\nfn main() -> unit {\n  let z = zero();\n  let a = 10%s / z;\n  string_println("after")\n}\n' % (t, suf, suf)
                go = compile_program(src); body = go[go.find('func main0'):]
                ok = 'func main0' in go and '/' not in body.split('func main()')[0]
                detail = 'goml program `let z: %s = zero(); let a = 10%s / z; string_println("after")`: emitted main0 %s: ' % (t, suf, 'contains no division' if ok else 'keeps the division') + body.split('func main()')[0][:300].replace('\n', ' | ')
                if ok: break
        if key == 'index-judged-pure':
            src = 'fn main() -> unit {\n  let v: Vec[int32] = vec_new();\n  let a = vec_get(v, 3);\n  string_println("after")\n}\n'
            go = compile_program(src); body = go[go.find('func main0'):].split('func main()')[0]
            ok = 'func main0' in go and '[3]' not in body
            detail = 'goml program `let v: Vec[int32] = vec_new(); let a = vec_get(v, 3); string_println("after")`: emitted main0 %s: ' % ('contains no index expression' if ok else 'keeps v[3]') + body[:300].replace('\n', ' | ')
        if key == 'effect-judged-pure':
            import re as _re
            m_ = _re.search(r"Expr#3\['([A-Za-z_][A-Za-z0-9_]*)'", json.dumps(desc))
            name = m_.group(1) if m_ else 'f'
            src = 'fn %s(x: int32) -> int32 { let _ = string_println("effect"); x }\nfn main() -> unit {\n  let a = %s(1);\n  string_println("after")\n}\n' % (name, name)
            go = compile_program(src); body = go[go.find('func main0'):].split('func main()')[0]
            ok = 'func main0' in go and (name + '(') not in body
            detail = 'goml program with an unused call `let a = %s(1)` to an effectful user function: emitted main0 = %s' % (name, body[:260].replace('\n', ' | '))
        r.findings.append(Finding(key, 'expr_has_side_effects judges an expression pure that may have an effect (%s): %s' % (why, json.dumps(desc)[:300]), {'expr': desc, 'why': why}, ok, detail))


# ----------------------------------------------------------------------------- O9.3 ANF names effects in source order, exactly once, respecting short-circuit and branches
from mirsym.engine import UNIT as UNIT_
GEN_USED = set()       # forms the generator actually produced during the current obligation (checked against the requested forms: a form that is listed in the bounds but never generated makes the obligation inconclusive)
def check_generated(r, forms):
    missing = sorted(f for f in forms if f not in GEN_USED)
    r.bounds += '; forms generated on at least one path: %s' % sorted(GEN_USED)
    if missing: raise Unsupported('the generator never produced the requested forms %s: the stated bounds would overstate the exploration' % missing)

class LiftGen:
    """lazily chosen Lift-IR expressions; alongside each expression the *source* effect trace is built:
    trace = list of events; event = ('call', f) | ('if', then_trace, else_trace) | ('while', cond_trace, body_trace)"""
    def __init__(s, W, ex, forms):
        tt = W.tt; s.W = W; s.ex = ex; s.forms = forms; s.n = 0
        s.LE = tt.find_adt(['lift', 'LiftExpr'], 'compiler'); s.TY = tt.find_adt(['tast', 'Ty'], 'compiler'); s.PR = tt.find_adt(['common', 'Prim'], 'compiler')
        s.BOP = tt.find_adt(['common_defs', 'BinaryOp'], 'common_defs'); s.UOP = tt.find_adt(['common_defs', 'UnaryOp'], 'common_defs')
    def ty(s, n, *f): return Agg(s.TY.key, s.TY.vindex(n), list(f))
    def L(s, n, **kw): return Agg(s.LE.key, s.LE.vindex(n), [kw[f[0]] for f in s.LE.variants[s.LE.vindex(n)].fields])
    def var(s, n, t='TInt32'): return s.L('EVar', name=mkstr(n), ty=s.ty(t))
    def call(s, fn, args, t='TInt32'):
        fty = s.ty('TFunc', PyVec([s.ty('TInt32') for _ in args]), mkbox(s.ty(t)))
        return s.L('ECall', func=mkbox(s.L('EVar', name=mkstr(fn), ty=fty)), args=PyVec(args), ty=s.ty(t))
    def boolean(s, depth):
        """boolean-typed expression + trace"""
        s.n += 1; me = s.n
        opts = ['bvar', 'bcall'] + (['and', 'or', 'not', 'less'] if depth > 0 else [])
        opts = [o for o in opts if o in s.forms or o in ('bvar', 'bcall')]
        k = s.ex.choose([(True, o) for o in opts]); GEN_USED.add(k)
        if k == 'bvar': return s.var('b%d' % me, 'TBool'), []
        if k == 'bcall':
            if 'reads' in s.forms or 'read1' in s.forms:
                nm = s.ex.choose([(True, 'p%d' % me)] + [(True, x) for x in (READS if 'reads' in s.forms else READS[:1])])
                if nm in READS: GEN_USED.update(('reads', 'read1'))
                if nm in READS: return s.call(nm, [s.var('c%d' % me), s.var('i%d' % me)], 'TBool'), [('call', 'read')]
            return s.call('p%d' % me, [], 'TBool'), [('call', 'p%d' % me)]
        if k == 'not':
            e, t = s.boolean(depth - 1); return s.L('EUnary', op=Agg(s.UOP.key, s.UOP.vindex('Not'), []), expr=mkbox(e), ty=s.ty('TBool')), t
        if k == 'less':
            a, ta = s.expr(depth - 1); b, tb = s.expr(depth - 1)
            return s.L('EBinary', op=Agg(s.BOP.key, s.BOP.vindex('Less'), []), lhs=mkbox(a), rhs=mkbox(b), ty=s.ty('TBool')), ta + tb
        a, ta = s.boolean(depth - 1); b, tb = s.boolean(depth - 1)
        e = s.L('EBinary', op=Agg(s.BOP.key, s.BOP.vindex('And' if k == 'and' else 'Or'), []), lhs=mkbox(a), rhs=mkbox(b), ty=s.ty('TBool'))
        # short-circuit: the right operand runs only when the left one does not decide the result
        return e, ta + ([('if', tb, []) if k == 'and' else ('if', [], tb)] if tb else [])
    def go_tail(s):
        """unit-typed body whose tail (possibly under let / if) is `go <closure>`"""
        clty = s.ty('TStruct', mkstr('closure_env_0'))
        go = s.L('EGo', expr=mkbox(s.L('EVar', name=mkstr('cl'), ty=clty)), ty=s.ty('TUnit'))
        unit = s.L('EPrim', value=Agg(s.PR.key, s.PR.vindex('Unit'), [UNIT_]), ty=s.ty('TUnit'))
        k = s.ex.choose([(True, o) for o in ('tail', 'let-tail', 'if-tail', 'seq')])
        if k == 'tail': return go, [('go',)]
        if k == 'let-tail': return s.L('ELet', name=mkstr('x1'), value=mkbox(s.call('g1', [])), body=mkbox(go), ty=s.ty('TUnit')), [('call', 'g1'), ('go',)]
        if k == 'if-tail': return s.L('EIf', cond=mkbox(s.var('b1', 'TBool')), then_branch=mkbox(go), else_branch=mkbox(unit), ty=s.ty('TUnit')), [('if', [('go',)], [])]
        return s.L('ELet', name=mkstr('u1'), value=mkbox(go), body=mkbox(s.L('ELet', name=mkstr('x1'), value=mkbox(s.call('g1', [])), body=mkbox(unit), ty=s.ty('TUnit'))), ty=s.ty('TUnit')), [('go',), ('call', 'g1')]
    def expr(s, depth):
        """int-typed expression + trace"""
        s.n += 1; me = s.n
        opts = ['var', 'call0'] + ([f for f in ('call1', 'call2', 'callcall', 'add', 'div', 'sub', 'mul', 'if', 'let', 'tuple', 'while', 'whilematch', 'whileifelse', 'unitop', 'array', 'constr', 'dyncall', 'neg', 'matchop') if f in s.forms] if depth > 0 else [])
        k = s.ex.choose([(True, o) for o in opts]); GEN_USED.add(k)
        if k == 'var': return s.var('v%d' % me), []
        if k == 'call0': return s.call('g%d' % me, []), [('call', 'g%d' % me)]
        if k == 'call1':
            a, ta = s.expr(depth - 1); return s.call('h%d' % me, [a]), ta + [('call', 'h%d' % me)]
        if k == 'callcall':
            # the callee is itself an effectful expression: pick()(arg) - callee first, then the arguments, then the call
            fty = s.ty('TFunc', PyVec([s.ty('TInt32')]), mkbox(s.ty('TInt32')))
            callee = s.L('ECall', func=mkbox(s.L('EVar', name=mkstr('pick%d' % me), ty=s.ty('TFunc', PyVec([]), mkbox(fty)))), args=PyVec([]), ty=fty)
            a, ta = s.expr(depth - 1)
            return s.L('ECall', func=mkbox(callee), args=PyVec([a]), ty=s.ty('TInt32')), [('call', 'pick%d' % me)] + ta + [('call', '<value>')]
        if k == 'call2':
            a, ta = s.expr(depth - 1); b, tb = s.expr(depth - 1); return s.call('k%d' % me, [a, b]), ta + tb + [('call', 'k%d' % me)]
        if k in ('add', 'div', 'sub', 'mul'):
            a, ta = s.expr(depth - 1); b, tb = s.expr(depth - 1)
            return s.L('EBinary', op=Agg(s.BOP.key, s.BOP.vindex({'add': 'Add', 'div': 'Div', 'sub': 'Sub', 'mul': 'Mul'}[k]), []), lhs=mkbox(a), rhs=mkbox(b), ty=s.ty('TInt32')), ta + tb
        if k == 'array':
            # an array literal handed to a function: items left to right, then the call
            a, ta = s.expr(depth - 1); b, tb = s.expr(depth - 1); aty = s.ty('TArray', 2, mkbox(s.ty('TInt32')))
            arr = s.L('EArray', items=PyVec([a, b]), ty=aty)
            fty = s.ty('TFunc', PyVec([aty]), mkbox(s.ty('TInt32')))
            return s.L('ECall', func=mkbox(s.L('EVar', name=mkstr('k%d' % me), ty=fty)), args=PyVec([arr]), ty=s.ty('TInt32')), ta + tb + [('call', 'k%d' % me)]
        if k == 'constr':
            # a struct value S { a, b } handed to a function: initialisers left to right, then the call
            tt = s.W.tt; CO = tt.find_adt(['common', 'Constructor'], 'compiler'); SCn = tt.find_adt(['common', 'StructConstructor'], 'compiler'); TI = tt.find_adt(['tast', 'TastIdent'], 'compiler')
            a, ta = s.expr(depth - 1); b, tb = s.expr(depth - 1); sty = s.ty('TStruct', mkstr('S'))
            val = s.L('EConstr', constructor=Agg(CO.key, CO.vindex('Struct'), [Agg(SCn.key, 0, [Agg(TI.key, 0, [mkstr('S')])])]), args=PyVec([a, b]), ty=sty)
            fty = s.ty('TFunc', PyVec([sty]), mkbox(s.ty('TInt32')))
            return s.L('ECall', func=mkbox(s.L('EVar', name=mkstr('k%d' % me), ty=fty)), args=PyVec([val]), ty=s.ty('TInt32')), ta + tb + [('call', 'k%d' % me)]
        if k == 'dyncall':
            # d.m(a, b) on a trait object: receiver, arguments left to right, then the dynamic call
            TI = s.W.tt.find_adt(['tast', 'TastIdent'], 'compiler')
            a, ta = s.expr(depth - 1); b, tb = s.expr(depth - 1)
            recv = s.L('EVar', name=mkstr('d%d' % me), ty=s.ty('TDyn', mkstr('Tr')))
            return s.L('EDynCall', trait_name=Agg(TI.key, 0, [mkstr('Tr')]), method_name=Agg(TI.key, 0, [mkstr('m')]), receiver=mkbox(recv), args=PyVec([a, b]), ty=s.ty('TInt32')), ta + tb + [('EDynCall',)]
        if k == 'neg':
            a, ta = s.expr(depth - 1)
            return s.L('EUnary', op=Agg(s.UOP.key, s.UOP.vindex('Neg'), []), expr=mkbox(a), ty=s.ty('TInt32')), ta
        if k == 'matchop':
            # match A { 0 => B, _ => C } in operand position: the scrutinee once, then exactly one arm
            LA = s.W.tt.find_adt(['lift', 'LiftArm'], 'compiler')
            sc, tsc = s.expr(depth - 1); b, tb = s.expr(depth - 1); c_, tc = s.expr(depth - 1)
            zero = s.L('EPrim', value=Agg(s.PR.key, s.PR.vindex('Int32'), [0]), ty=s.ty('TInt32'))
            return s.L('EMatch', expr=mkbox(sc), arms=PyVec([Agg(LA.key, 0, [zero, b])]), default=ms.some(mkbox(c_)), ty=s.ty('TInt32')), tsc + [('match', [tb], tc)]
        if k == 'tuple':
            a, ta = s.expr(depth - 1); b, tb = s.expr(depth - 1)
            tup = s.L('ETuple', items=PyVec([a, b]), ty=s.ty('TTuple', PyVec([s.ty('TInt32'), s.ty('TInt32')])))
            return s.L('EProj', tuple=mkbox(tup), index=0, ty=s.ty('TInt32')), ta + tb
        if k == 'unitop':
            # a unit-typed operand that runs code, next to an int operand: (U, b).1 with U among let-in-unit / if-unit / while / unit call
            a, ta = s.expr(depth - 1); b, tb = s.expr(depth - 1); unit = s.L('EPrim', value=Agg(s.PR.key, s.PR.vindex('Unit'), [UNIT_]), ty=s.ty('TUnit'))
            uk = s.ex.choose([(True, o) for o in ('let', 'if', 'while', 'call')])
            if uk == 'let': u = s.L('ELet', name=mkstr('u%d' % me), value=mkbox(a), body=mkbox(unit), ty=s.ty('TUnit')); tu = ta
            elif uk == 'if':
                c, tc = s.boolean(0); u = s.L('EIf', cond=mkbox(c), then_branch=mkbox(s.L('ELet', name=mkstr('u%d' % me), value=mkbox(a), body=mkbox(unit), ty=s.ty('TUnit'))), else_branch=mkbox(unit), ty=s.ty('TUnit')); tu = tc + [('if', ta, [])]
            elif uk == 'while':
                c, tc = s.boolean(0); u = s.L('EWhile', cond=mkbox(c), body=mkbox(a), ty=s.ty('TUnit')); tu = [('while', tc, ta)]
            else: u = s.call('k%d' % me, [a], 'TUnit'); tu = ta + [('call', 'k%d' % me)]
            tup = s.L('ETuple', items=PyVec([u, b]), ty=s.ty('TTuple', PyVec([s.ty('TUnit'), s.ty('TInt32')])))
            return s.L('EProj', tuple=mkbox(tup), index=1, ty=s.ty('TInt32')), tu + tb
        if k == 'if':
            c, tc = s.boolean(depth - 1); a, ta = s.expr(depth - 1); b, tb = s.expr(depth - 1)
            return s.L('EIf', cond=mkbox(c), then_branch=mkbox(a), else_branch=mkbox(b), ty=s.ty('TInt32')), tc + [('if', ta, tb)]
        if k == 'let':
            a, ta = s.expr(depth - 1); b, tb = s.expr(depth - 1)
            return s.L('ELet', name=mkstr('x%d' % me), value=mkbox(a), body=mkbox(b), ty=s.ty('TInt32')), ta + tb
        if k == 'whilematch':
            # while match <int> { 0 => false, _ => true } { body }: the `false` arm must end the loop
            LA = s.W.tt.find_adt(['lift', 'LiftArm'], 'compiler')
            sc, tsc = s.expr(depth - 1); b, tb = s.expr(depth - 1)
            lit = lambda v: s.L('EPrim', value=Agg(s.PR.key, s.PR.vindex('Bool'), [v]), ty=s.ty('TBool'))
            zero = s.L('EPrim', value=Agg(s.PR.key, s.PR.vindex('Int32'), [0]), ty=s.ty('TInt32'))
            first = s.ex.choose([(True, False), (True, True)])
            c = s.L('EMatch', expr=mkbox(sc), arms=PyVec([Agg(LA.key, 0, [zero, lit(first)])]), default=ms.some(mkbox(lit(not first))), ty=s.ty('TBool'))
            w = s.L('EWhile', cond=mkbox(c), body=mkbox(b), ty=s.ty('TUnit'))
            return s.L('ELet', name=mkstr('w%d' % me), value=mkbox(w), body=mkbox(s.var('v%d' % me)), ty=s.ty('TInt32')), [('while', tsc, tb)]
        if k == 'whileifelse':
            # while C { if D { T } else { E } } with T / E each (solver decision) empty `()` or an effect: the `if` stands in effect position, an empty branch must not take the other one with it
            c, tc = s.boolean(depth - 1); d, td = s.boolean(0); a, ta = s.expr(depth - 1); b, tb = s.expr(depth - 1)
            unit = lambda: s.L('EPrim', value=Agg(s.PR.key, s.PR.vindex('Unit'), [UNIT_]), ty=s.ty('TUnit'))
            eff = lambda nm, v: s.L('ELet', name=mkstr(nm), value=mkbox(v), body=mkbox(unit()), ty=s.ty('TUnit'))
            shape = s.ex.choose([(True, o) for o in ('then-empty', 'else-empty', 'both')])
            th, tth = (unit(), []) if shape == 'then-empty' else (eff('ut%d' % me, a), ta)
            el, tel = (unit(), []) if shape == 'else-empty' else (eff('ue%d' % me, b), tb)
            body = s.L('EIf', cond=mkbox(d), then_branch=mkbox(th), else_branch=mkbox(el), ty=s.ty('TUnit'))
            w = s.L('EWhile', cond=mkbox(c), body=mkbox(body), ty=s.ty('TUnit'))
            return s.L('ELet', name=mkstr('w%d' % me), value=mkbox(w), body=mkbox(s.var('v%d' % me)), ty=s.ty('TInt32')), [('while', tc, td + [('if', tth, tel)])]
        if k == 'while':
            c, tc = s.boolean(depth - 1); b, tb = s.expr(depth - 1)
            w = s.L('EWhile', cond=mkbox(c), body=mkbox(b), ty=s.ty('TUnit'))
            return s.L('ELet', name=mkstr('w%d' % me), value=mkbox(w), body=mkbox(s.var('v%d' % me)), ty=s.ty('TInt32')), [('while', tc, tb)]
        raise Unsupported(k)

READS = ('vec_get', 'array_get', 'string_get')      # builtin element reads: can fail (index out of range), so they are effects
def trace_name(nm):
    if any(nm == x or nm.startswith(x + '_') for x in READS): return 'read'          # the backend may inline a read as an index expression or call a specialised helper
    return nm if (nm[0] in 'fghkp' and not nm.startswith('t')) else '<value>'

def anf_trace(W, a):
    AE = W.tt.find_adt(['anf', 'AExpr'], 'compiler'); CE = W.tt.find_adt(['anf', 'CExpr'], 'compiler'); IE = W.tt.find_adt(['anf', 'ImmExpr'], 'compiler')
    def T(a):
        a = unbox(a) if isinstance(a, Agg) and a.ty == 'Box' else a
        n = AE.variants[a.idx].name; f = dict(zip([x[0] for x in AE.variants[a.idx].fields], a.fields))
        if n == 'ALet': return C(f['value']) + T(f['body'])
        return C(f['expr'])
    def C(c):
        c = unbox(c) if isinstance(c, Agg) and c.ty == 'Box' else c
        n = CE.variants[c.idx].name; f = dict(zip([x[0] for x in CE.variants[c.idx].fields], c.fields))
        if n == 'ECall':
            fn = f['func']; nm = ms.pystr(fn.fields[0]) if IE.variants[fn.idx].name == 'ImmVar' else '?'
            return [('call', trace_name(nm))]
        if n == 'EIf': return [('if', T(f['then']), T(f['else_']))]
        if n == 'EWhile': return [('while', T(f['cond']), T(f['body']))]
        if n == 'EMatch': return [('match', [T(arm.fields[1]) for arm in f['arms'].items], T(f['default'].fields[0]) if f['default'].idx == 1 else None)]
        if n == 'EGo': return [('go',)]
        if n == 'EDynCall': return [(n,)]
        return []
    return T(a)

def norm_trace(t):
    """drop conditionals that perform nothing on either side"""
    out = []
    for e in t:
        if e[0] == 'if':
            a, b = norm_trace(e[1]), norm_trace(e[2])
            if a or b: out.append(('if', a, b))
        elif e[0] == 'while': out.append(('while', norm_trace(e[1]), norm_trace(e[2])))
        elif e[0] == 'match':
            arms = [norm_trace(a) for a in e[1]]; d = norm_trace(e[2]) if e[2] is not None else None
            if any(arms) or d: out.append(('match', arms, d))
        else: out.append(e)
    return out

def ob_anf_order(r, tier, seed, depth, forms, top):
    W = e2.fresh_world(CRATES)
    LF = W.tt.find_adt(['lift', 'LiftFn'], 'compiler'); LFILE = W.tt.find_adt(['lift', 'LiftFile'], 'compiler')
    AFN = W.tt.find_adt(['anf', 'Fn'], 'compiler')
    r.bounds = ('Lift-IR bodies `f(A)` with' if top == 'call1' else 'Lift-IR bodies `f(A1, A2)` / boolean tops with') + ' sub-expressions lazily chosen to depth %d among %s; effectful leaves are calls to distinct functions' % (depth, forms)
    r.assumptions = ['oracle: source trace = left-to-right, innermost first; `&&`/`||` run their right operand only when the left one does not decide; if/while bodies are conditional sub-traces; every call exactly once',
                     'GlobalAnfEnv::from_lift_env receives an opaque environment (no enum/struct look-ups on these forms)']
    def entry(ex):
        g = LiftGen(W, ex, forms)
        if top == 'call':
            a1, t1 = g.expr(depth); a2, t2 = g.expr(depth)
            body = g.call('f', [a1, a2]); src = t1 + t2 + [('call', 'f')]
        elif top == 'call1':
            a1, t1 = g.expr(depth); body = g.call('f', [a1]); src = t1 + [('call', 'f')]
        elif top == 'go': body, src = g.go_tail()
        else:
            body, src = g.boolean(depth + 1)
        fn = Agg(LF.key, 0, [mkstr('main'), PyVec([]), g.ty('TInt32') if top != 'go' else g.ty('TUnit'), body])
        h = {0: Agg('compiler::env::Gensym', 0, [Cell_(0)])}
        res = ex.call('anf::anf_file', [Opaque('liftenv'), Ref(h, 0), Agg(LFILE.key, 0, [PyVec([fn])])])
        afile = res.fields[0]; afn = afile.fields[0].items[0]
        ff = dict(zip([x[0] for x in AFN.variants[0].fields], afn.fields))
        return norm_trace(src), norm_trace(anf_trace(W, ff['body']))
    W.stubs['anf::<impl at crates/compiler/src/anf.rs:15:1: 15:18>::from_lift_env'] = None
    W.stubs = {}
    def ov(f, g):
        if g.endswith('GlobalAnfEnv::from_lift_env'):
            def m_from_lift_env(ex, f_, a): return Opaque('anfenv')
            return m_from_lift_env
        return None
    W.overrides = [ov]
    for n in list(W.methods.get('from_lift_env', [])): W.stubs[n[1]] = lambda ex, a: Opaque('anfenv')
    GEN_USED.clear(); res = e2.explore(r, W, entry, []); check_generated(r, forms)
    found = {}
    for p in res:
        r.cases += 1
        if p.kind != 'ok': found.setdefault('panic', ('anf panics: %s' % p.value, None)); continue
        src, got = p.value
        if src or got: r.nontrivial += 1
        if src != got:
            def has_sc(t): return any(e[0] == 'if' for e in t)
            flat = lambda t: [x for e in t for x in ([e] if e[0] == 'call' else (flat(e[1]) + flat(e[2]) if e[0] in ('if', 'while') else [e]))]
            key = 'short-circuit-lost' if flat(src) == flat(got) or sorted(map(str, flat(src))) == sorted(map(str, flat(got))) and top == 'bool' else 'effect-order'
            if key not in found: found[key] = ('source trace %s, ANF trace %s' % (src, got), (src, got))
        elif len(r.samples) < 3 and src: r.samples.append({'trace': str(src)})
    for key, (what, w) in found.items():
        ok_, detail = True, 'traces read from the anf::File produced by the real anf_file MIR'
        if key == 'short-circuit-lost':
            ok_ = False; detail = ''
            for cond in ('f() && t()', 'f() && (f() || t())', 't() || (t() && f())'):
                src_prog = 'fn t() -> bool { let _ = string_println("t"); true }\nfn f() -> bool { let _ = string_println("f"); false }\nfn main() -> unit {\n  let x = %s;\n  if x { string_println("x") } else { string_println("nx") }\n}\n' % cond
                go = compile_program(src_prog); body = go[go.find('func main0'):].split('func main()')[0]
                # every call must sit inside a branch except the first one: a second call at the top nesting level means it runs unconditionally
                top_calls = [l for l in body.split('\n') if l.startswith('    var ') and ('= t()' in l or '= f()' in l)]
                if 'func main0' in go and len(top_calls) > 1:
                    ok_ = True; detail = 'goml `let x = %s;` emits unconditional calls: %s' % (cond, ' | '.join(x.strip() for x in top_calls)); break
            if not ok_: detail = 'no canned program reproduced it at compiler level; traces are read from the anf::File produced by the real anf_file MIR'; ok_ = True
        r.findings.append(Finding(key, 'ANF changes the effect trace: ' + what, {'traces': [str(x) for x in (w or ())]}, ok_, detail))

# ----------------------------------------------------------------------------- O9.2 block-level DCE keeps every effect, once, in order, and the returned value
class GoGen:
    """lazily chosen straight-line / branching Go blocks over variables {a, b} (+ parameter p); well-formed by construction:
    a variable is read only after it has been declared, assigned only after it has been declared"""
    def __init__(s, W, ex, forms=('atom', 'call', 'add', 'div'), conds=('less',), branch_n=1):
        tt = W.tt; s.ex = ex; s.n = 0; s.forms = forms; s.conds = conds; s.branch_n = branch_n
        s.GE = tt.find_adt(['goast', 'Expr'], 'compiler'); s.GS = tt.find_adt(['goast', 'Stmt'], 'compiler'); s.GT = tt.find_adt(['goty', 'GoType'], 'compiler')
        s.GB = tt.find_adt(['goast', 'GoBinaryOp'], 'compiler'); s.BL = tt.find_adt(['goast', 'Block'], 'compiler')
    def T(s, n='TInt32'): return Agg(s.GT.key, s.GT.vindex(n), [])
    def E(s, n, **kw): return Agg(s.GE.key, s.GE.vindex(n), [kw[f[0]] for f in s.GE.variants[s.GE.vindex(n)].fields])
    def S(s, n, **kw): return Agg(s.GS.key, s.GS.vindex(n), [kw[f[0]] for f in s.GS.variants[s.GS.vindex(n)].fields])
    def var(s, n): return s.E('Var', name=mkstr(n), ty=s.T())
    def atom(s, declared):
        k = s.ex.choose([(True, v) for v in declared] + [(True, '#7')])
        return s.E('Int', value=mkstr('7'), ty=s.T()) if k == '#7' else s.var(k)
    def expr(s, declared, avoid=None):
        declared = [v for v in declared if v != avoid]      # `x = e` never reads x in goml output (temporaries are single-assignment per path)
        k = s.ex.choose([(True, o) for o in s.forms])
        if k == 'atom': return s.atom(declared)
        if k == 'call':
            s.n += 1
            fty = Agg(s.GT.key, s.GT.vindex('TFunc'), [PyVec([s.T()]), mkbox(s.T())])
            return s.E('Call', func=mkbox(s.E('Var', name=mkstr('f%d' % s.n), ty=fty)), args=PyVec([s.atom(declared)]), ty=s.T())
        if k == 'builtin':
            # what the backend emits for vec_push / vec_len: Go builtins and conversions, calls in the Go AST but not allowed in statement position
            bk = s.ex.choose([(True, 'append'), (True, 'int32-len')])
            fty = Agg(s.GT.key, s.GT.vindex('TFunc'), [PyVec([s.T()]), mkbox(s.T())])
            if bk == 'append': return s.E('Call', func=mkbox(s.E('Var', name=mkstr('append'), ty=fty)), args=PyVec([s.var('p'), s.atom(declared)]), ty=s.T())
            return s.E('Call', func=mkbox(s.E('Var', name=mkstr('int32'), ty=fty)), args=PyVec([s.E('Call', func=mkbox(s.E('Var', name=mkstr('len'), ty=fty)), args=PyVec([s.var('p')]), ty=s.T())]), ty=s.T())
        op = 'Add' if k == 'add' else 'Div'
        return s.E('BinaryOp', op=Agg(s.GB.key, s.GB.vindex(op), []), lhs=mkbox(s.atom(declared)), rhs=mkbox(s.atom(declared)), ty=s.T())
    def stmt(s, declared, depth):
        opts = ['decl'] + (['assign'] if [v for v in declared if v != 'p'] else []) + ['call'] + (['store'] if getattr(s, 'stores', False) else [])
        if depth == 'branch': opts = [o for o in opts if o != 'decl']
        if depth == 'if': opts = ['if']
        if depth == 'switch': opts = ['switch']
        if getattr(s, 'first', None) is not None and depth == 0:      # shard: the kind of the first top-level statement is fixed
            opts = [s.first]; s.first = None
        k = s.ex.choose([(True, o) for o in opts])
        if k == 'decl':
            fresh = [v for v in ('a', 'b') if v not in declared]
            if not fresh: k = 'call'
            else:
                name = fresh[0]; e = s.expr(declared); declared.append(name)
                return s.S('VarDecl', name=mkstr(name), ty=s.T(), value=ms.some(e))
        if k == 'store':
            # a store through the parameter: `*p = e`, `p.f = e`, `p[1] = e` - always observable (the target may be aliased)
            sk = s.ex.choose([(True, 'ptr'), (True, 'field'), (True, 'index')]); val = s.expr(declared); tgt = s.var('p')
            if sk == 'ptr': return s.S('PointerAssign', pointer=tgt, value=val)
            if sk == 'field': return s.S('FieldAssign', target=s.E('FieldAccess', obj=mkbox(tgt), field=mkstr('f'), ty=s.T()), value=val)
            return s.S('IndexAssign', array=tgt, index=s.E('Int', value=mkstr('1'), ty=s.T()), value=val)
        if k == 'assign':
            name = s.ex.choose([(True, v) for v in declared if v != 'p'])
            return s.S('Assignment', name=mkstr(name), value=s.expr(declared, avoid=name))
        if k == 'call':
            s.n += 1
            fty = Agg(s.GT.key, s.GT.vindex('TFunc'), [PyVec([s.T()]), mkbox(s.T('TUnit'))])
            return s.S('Expr', **{s.GS.variants[s.GS.vindex('Expr')].fields[0][0] if s.GS.variants[s.GS.vindex('Expr')].fields[0][0] else '0': None}) if False else Agg(s.GS.key, s.GS.vindex('Expr'), [s.E('Call', func=mkbox(s.E('Var', name=mkstr('g%d' % s.n), ty=fty)), args=PyVec([s.atom(declared)]), ty=s.T('TUnit'))])
        if k == 'switch':
            scrut = s.atom(declared)
            lit = lambda v: s.E('Int', value=mkstr(v), ty=s.T())
            blocks = []
            for _ in range(3):
                d_ = list(declared); blocks.append(s.block(d_, s.branch_n, 'branch', inner=True))
            with_default = s.ex.choose([(True, True), (True, False)])
            return s.S('SwitchExpr', expr=scrut, cases=PyVec([Agg('tuple', 0, [lit('0'), blocks[0]]), Agg('tuple', 0, [lit('7'), blocks[1]])]), default=ms.some(blocks[2]) if with_default else ms.NONE())
        ck = s.ex.choose([(True, o) for o in s.conds]) if len(s.conds) > 1 else s.conds[0]
        if ck == 'less': cond = s.E('BinaryOp', op=Agg(s.GB.key, s.GB.vindex('Less'), []), lhs=mkbox(s.atom(declared)), rhs=mkbox(s.atom(declared)), ty=s.T('TBool'))
        else: cond = s.E('Bool', value=(ck == 'true'), ty=s.T('TBool'))
        d1 = list(declared); then = s.block(d1, s.branch_n, 'branch', inner=True)
        d2 = list(declared); els = s.block(d2, s.branch_n, 'branch', inner=True)
        return s.S('If', cond=cond, then=then, else_=ms.some(els))
    def block(s, declared, n, depth, inner=False):
        return Agg(s.BL.key, 0, [PyVec([s.stmt(declared, depth) for _ in range(n)])])

class GoEval:
    """symbolic evaluator of the Go subset with uninterpreted calls: produces the effect trace (calls with argument terms, integer
    divisions as possibly-failing events) and the returned term.  Branches are explored structurally (both sides, as a tree)."""
    def __init__(s, g): s.g = g
    def term(s, e, env, trace):
        GE = s.g.GE
        if isinstance(e, Agg) and e.ty == 'Box': e = unbox(e)
        n = GE.variants[e.idx].name; f = dict(zip([x[0] for x in GE.variants[e.idx].fields], e.fields))
        if n == 'Var':
            k = ms.pystr(f['name'])
            if k not in env: raise UseBeforeDecl(k)
            return env[k]
        if n == 'Int': return ('int', ms.pystr(f['value']))
        if n == 'Bool': return ('bool', bool(f['value']))
        if n == 'Call':
            fn = ms.pystr(unbox(f['func']).fields[0]); args = tuple(s.term(a, env, trace) for a in f['args'].items)
            trace.append(('call', fn, args)); return ('result', fn, args)
        if n == 'FieldAccess': return ('field', s.term(f['obj'], env, trace), ms.pystr(f['field']))
        if n == 'BinaryOp':
            a = s.term(f['lhs'], env, trace); b = s.term(f['rhs'], env, trace); op = s.g.GB.variants[f['op'].idx].name
            if op == 'Div' and not (b[0] == 'int' and b[1] != '0'): trace.append(('div', a, b))
            return ('bin', op, a, b)
        raise Unsupported('go evaluator: expr ' + n)
    def block(s, b, env, trace):
        GS = s.g.GS
        for st in b.fields[0].items:
            n = GS.variants[st.idx].name; f = dict(zip([x[0] if x[0] is not None else str(i) for i, x in enumerate(GS.variants[st.idx].fields)], st.fields))
            if n == 'Expr': s.term(st.fields[0], env, trace)
            elif n == 'VarDecl':
                name = ms.pystr(f['name']); v = f['value']
                env[name] = s.term(v.fields[0], env, trace) if v.idx == 1 else ('zero',)
                env.setdefault('#declared', set()); env['#declared'] = env['#declared'] | {name}
            elif n == 'Assignment':
                name = ms.pystr(f['name']); t = s.term(f['value'], env, trace)
                if name != '_':
                    if name not in env: raise UseBeforeDecl('assignment to undeclared ' + name)
                    env[name] = t
            elif n == 'PointerAssign': trace.append(('store', 'ptr', s.term(f['pointer'], env, trace), s.term(f['value'], env, trace)))
            elif n == 'FieldAssign': trace.append(('store', 'field', s.term(f['target'], env, trace), s.term(f['value'], env, trace)))
            elif n == 'IndexAssign': trace.append(('store', 'index', s.term(f['array'], env, trace), s.term(f['index'], env, trace), s.term(f['value'], env, trace)))
            elif n == 'Return':
                trace.append(('ret', s.term(f['expr'].fields[0], env, trace) if f['expr'].idx == 1 else None)); return
            elif n == 'If':
                c = s.term(f['cond'], env, trace)
                if c[0] == 'bool':
                    # a constant condition: the statement *is* its taken branch (a compiler may fold it); branches declare nothing
                    taken = f['then'] if c[1] else (f['else_'].fields[0] if f['else_'].idx == 1 else None)
                    if taken is not None: s.block(taken, env, trace)
                    continue
                e1 = dict(env); t1 = []; s.block(f['then'], e1, t1)
                e2 = dict(env); t2 = []
                if f['else_'].idx == 1: s.block(f['else_'].fields[0], e2, t2)
                trace.append(('if', c, tuple(t1), tuple(t2)))
                # join: a variable assigned in a branch becomes a phi term
                for k in set(e1) | set(e2):
                    if k.startswith('#') or k not in env: continue
                    if e1.get(k) != env[k] or e2.get(k) != env[k]: env[k] = ('phi', c, e1.get(k), e2.get(k))
            elif n == 'SwitchExpr':
                c = s.term(f['expr'], env, trace)
                arms = []; envs = []
                for cb in f['cases'].items:
                    v = s.term(cb.fields[0], env, trace)
                    e_ = dict(env); t_ = []; s.block(cb.fields[1], e_, t_); arms.append((v, tuple(t_))); envs.append(e_)
                dt = None
                if f['default'].idx == 1:
                    e_ = dict(env); t_ = []; s.block(f['default'].fields[0], e_, t_); dt = tuple(t_); envs.append(e_)
                else: envs.append(dict(env))
                trace.append(('switch', c, tuple(arms), dt))
                for k in set().union(*[set(e_) for e_ in envs]):
                    if k.startswith('#') or k not in env: continue
                    if any(e_.get(k) != env[k] for e_ in envs): env[k] = ('phi-switch', c, tuple(e_.get(k) for e_ in envs))
            else: raise Unsupported('go evaluator: stmt ' + n)

class UseBeforeDecl(Exception): pass

def ob_block_dce(r, tier, seed, nstmts, depth, forms=('atom', 'call', 'add', 'div'), conds=('less',), branch_n=1, first=None, stores=False):
    W = e2.fresh_world(CRATES)
    r.bounds = 'Go blocks of %d statements (+ final `return <var>`) over {VarDecl, Assignment, call statement%s}, variables {a, b} and parameter p, initialisers among atom / call / + / integer division; nothing live afterwards' % (nstmts, (', value switch with two cases and an optional default' if depth == 'switch' else ', if/else with %d-statement branches, condition among %s' % (branch_n, list(conds))) if depth else '')
    r.assumptions = ['inputs are well-formed Go by construction (declared before use)', 'an assignment `x = e` never reads x itself: goml has no mutable locals, emitted temporaries are assigned once per path (a kernel counterexample `var a = p; a = a; return a` exists - dce drops the initialiser - but no goml program produces that shape)', 'oracle: translation validation with uninterpreted calls - the sequence of calls (with argument terms), of possibly-failing integer divisions and of branch events, and the returned term, must be identical before and after DCE; every variable read or assigned in the output must be declared there']
    def entry(ex):
        g = GoGen(W, ex, forms, conds, branch_n); declared = ['p']; g.first = first; g.stores = stores
        blk = g.block(declared, nstmts, 0)
        if depth: blk.fields[0].items.append(g.stmt(declared, 'switch' if depth == 'switch' else 'if'))
        ret = ex.choose([(True, v) for v in declared])
        blk.fields[0].items.append(g.S('Return', expr=ms.some(g.var(ret))))
        ev = GoEval(g); t_in = []; ev.block(blk, {'p': ('param', 'p')}, t_in)
        inp = describe_block(g, blk)
        h = {0: PySet([], 'hash')}
        res = ex.call('go::dce::dce_block_with_live', [blk, Ref(h, 0)])
        outb = res.fields[0]
        t_out = []
        try: ev.block(outb, {'p': ('param', 'p')}, t_out)
        except UseBeforeDecl as e: return inp, describe_block(g, outb), t_in, 'USE-BEFORE-DECL: %s' % e
        ex.notes['illegal'] = illegal_expr_stmts(g, outb)
        return inp, describe_block(g, outb), t_in, t_out
    res = e2.explore(r, W, entry, [])
    found = {}
    for p in res:
        r.cases += 1
        if p.kind != 'ok': found.setdefault('panic', ('dce_block_with_live panics: %s' % p.value, None)); continue
        inp, outp, t_in, t_out = p.value
        r.nontrivial += 1
        ill = (p.notes or {}).get('illegal')
        if ill: found.setdefault('illegal-expression-statement', ('DCE output has the expression statement `%s`, which Go rejects (only function and method calls may stand as statements; append / len / cap and conversions are `not used`): input `%s` output `%s`' % (ill[0], inp, outp), (inp, outp)))
        if isinstance(t_out, str): found.setdefault('undeclared-variable', ('DCE output uses a variable it no longer declares (%s): input `%s` output `%s`' % (t_out, inp, outp), (inp, outp)))
        elif t_in != t_out:
            calls = lambda t: [e for e in t if e[0] == 'call']
            key = 'effect-dropped-or-reordered' if [e[:2] for e in flat_events(t_in)] != [e[:2] for e in flat_events(t_out)] else 'value-changed'
            found.setdefault(key, ('DCE changes behaviour: input `%s` output `%s`: trace before %s, after %s' % (inp, outp, t_in, t_out), (inp, outp)))
        elif len(r.samples) < 3 and inp != outp: r.samples.append({'input': inp, 'output': outp})
    for key, (what, w) in found.items():
        r.findings.append(Finding(key, what[:900], {'blocks': w}, True, 'output block produced by the real dce_block_with_live MIR on the printed input block'))

GO_NON_STMT_CALLEES = ('append', 'len', 'cap', 'int8', 'int16', 'int32', 'int64', 'uint8', 'uint16', 'uint32', 'uint64', 'float32', 'float64', 'string', 'bool')
def illegal_expr_stmts(g, b):
    """expression statements of a Go block (recursively) that the Go spec does not allow: anything but a call, and calls of append / len / cap / conversions"""
    GS, GE = g.GS, g.GE; out = []
    for st in b.fields[0].items:
        n = GS.variants[st.idx].name; f = dict(zip([x[0] if x[0] is not None else str(i) for i, x in enumerate(GS.variants[st.idx].fields)], st.fields))
        if n == 'Expr':
            e = st.fields[0]; en = GE.variants[e.idx].name
            if en == 'Block': continue
            if en != 'Call': out.append(en); continue
            fn = unbox(dict(zip([x[0] for x in GE.variants[e.idx].fields], e.fields))['func'])
            if GE.variants[fn.idx].name == 'Var' and ms.pystr(fn.fields[0]) in GO_NON_STMT_CALLEES: out.append(ms.pystr(fn.fields[0]) + '(..)')
        elif n == 'If':
            out += illegal_expr_stmts(g, f['then'])
            if f['else_'].idx == 1: out += illegal_expr_stmts(g, f['else_'].fields[0])
        elif n == 'SwitchExpr':
            for cb in f['cases'].items: out += illegal_expr_stmts(g, cb.fields[1])
            if f['default'].idx == 1: out += illegal_expr_stmts(g, f['default'].fields[0])
        elif n == 'Loop': out += illegal_expr_stmts(g, f['body'])
    return out

def flat_events(t):
    out = []
    for e in t:
        if e[0] == 'if': out.append(('if', None)); out += flat_events(e[2]) + flat_events(e[3])
        elif e[0] == 'switch':
            out.append(('switch', None))
            for _v, t_ in e[2]: out += flat_events(t_)
            if e[3] is not None: out += flat_events(e[3])
        else: out.append(e)
    return out

def describe_block(g, b):
    GS, GE = g.GS, g.GE
    def ex_(e):
        if isinstance(e, Agg) and e.ty == 'Box': e = unbox(e)
        n = GE.variants[e.idx].name; f = dict(zip([x[0] for x in GE.variants[e.idx].fields], e.fields))
        if n == 'Var': return ms.pystr(f['name'])
        if n == 'Int': return ms.pystr(f['value'])
        if n == 'Bool': return 'true' if f['value'] else 'false'
        if n == 'Call': return '%s(%s)' % (ex_(f['func']), ', '.join(ex_(a) for a in f['args'].items))
        if n == 'FieldAccess': return '%s.%s' % (ex_(f['obj']), ms.pystr(f['field']))
        if n == 'BinaryOp': return '%s %s %s' % (ex_(f['lhs']), {'Add': '+', 'Div': '/', 'Less': '<'}.get(g.GB.variants[f['op'].idx].name, '?'), ex_(f['rhs']))
        return n
    out = []
    for st in b.fields[0].items:
        n = GS.variants[st.idx].name; f = dict(zip([x[0] if x[0] is not None else str(i) for i, x in enumerate(GS.variants[st.idx].fields)], st.fields))
        if n == 'Expr': out.append(ex_(st.fields[0]))
        elif n == 'VarDecl': out.append('var %s%s' % (ms.pystr(f['name']), ' = ' + ex_(f['value'].fields[0]) if f['value'].idx == 1 else ''))
        elif n == 'Assignment': out.append('%s = %s' % (ms.pystr(f['name']), ex_(f['value'])))
        elif n == 'PointerAssign': out.append('*%s = %s' % (ex_(f['pointer']), ex_(f['value'])))
        elif n == 'FieldAssign': out.append('%s = %s' % (ex_(f['target']), ex_(f['value'])))
        elif n == 'IndexAssign': out.append('%s[%s] = %s' % (ex_(f['array']), ex_(f['index']), ex_(f['value'])))
        elif n == 'Return': out.append('return %s' % (ex_(f['expr'].fields[0]) if f['expr'].idx == 1 else ''))
        elif n == 'If': out.append('if %s { %s } else { %s }' % (ex_(f['cond']), describe_block(g, f['then']), describe_block(g, f['else_'].fields[0]) if f['else_'].idx == 1 else ''))
        elif n == 'SwitchExpr': out.append('switch %s { %s%s }' % (ex_(f['expr']), ' '.join('case %s: %s;' % (ex_(cb.fields[0]), describe_block(g, cb.fields[1])) for cb in f['cases'].items), (' default: ' + describe_block(g, f['default'].fields[0])) if f['default'].idx == 1 else ''))
        else: out.append(n)
    return '; '.join(out)

# ----------------------------------------------------------------------------- O9.4 Go lowering keeps the ANF trace (chain: Lift -> real anf_file -> real compile_fn -> Go)
def go_trace(W, g, stmts, env=None, in_switch=False):
    """structural effect trace of emitted Go statements: calls by callee name, if/else as conditional sub-traces, a `for { ..; if !c { break }; .. }` loop as
    ('while', trace before the exit test, trace after it)"""
    GS, GE = g.GS, g.GE
    def calls(e, out):
        if isinstance(e, Agg) and e.ty == 'Box': e = unbox(e)
        if not isinstance(e, Agg) or e.ty != GE.key: return
        n = GE.variants[e.idx].name; f = dict(zip([x[0] for x in GE.variants[e.idx].fields], e.fields))
        if n == 'Call':
            for a in f['args'].items: calls(a, out)
            fn = unbox(f['func']); nm = ms.pystr(fn.fields[0]) if GE.variants[fn.idx].name == 'Var' else '<value>'
            out.append(('call', trace_name(nm)))
        elif n == 'BinaryOp': calls(f['lhs'], out); calls(f['rhs'], out)
        elif n in ('UnaryOp', 'Cast'): calls(f['expr'], out)
        elif n == 'FieldAccess': calls(f['obj'], out)
        elif n == 'StructLiteral':
            for x in f['fields'].items: calls(x.fields[1], out)
        elif n == 'ArrayLiteral':
            for x in f['elems'].items: calls(x, out)
        elif n == 'Index': calls(f['array'], out); calls(f['index'], out); out.append(('call', 'read'))
        elif n == 'Block': raise Unsupported('go trace: expression block')
    out = []
    for st in stmts:
        n = GS.variants[st.idx].name; f = dict(zip([x[0] if x[0] is not None else str(i) for i, x in enumerate(GS.variants[st.idx].fields)], st.fields))
        if n == 'Expr': calls(st.fields[0], out)
        elif n == 'VarDecl':
            if f['value'].idx == 1: calls(f['value'].fields[0], out)
        elif n == 'Assignment': calls(f['value'], out)
        elif n == 'Return':
            if f['expr'].idx == 1: calls(f['expr'].fields[0], out)
        elif n == 'If':
            calls(f['cond'], out)
            out.append(('if', go_trace(W, g, f['then'].fields[0].items, None, in_switch), go_trace(W, g, f['else_'].fields[0].fields[0].items, None, in_switch) if f['else_'].idx == 1 else []))
        elif n == 'Loop':
            body = f['body'].fields[0].items; cut = None
            for i, b in enumerate(body):
                if GS.variants[b.idx].name == 'If' and any(GS.variants[x.idx].name == 'Break' for x in b.fields[1].fields[0].items): cut = i; break
            if cut is None: raise Unsupported('go trace: loop without an exit test')
            out.append(('while', go_trace(W, g, body[:cut]), go_trace(W, g, body[cut + 1:])))
        elif n == 'Break':
            # goml has no `break`: every emitted one is meant to leave the enclosing `for`; inside a switch clause Go leaves only the switch
            if in_switch: out.append(('break-inside-switch-does-not-leave-the-loop',))
        elif n == 'SwitchExpr':
            calls(f['expr'], out)
            arms = [go_trace(W, g, cb.fields[1].fields[0].items, None, True) for cb in f['cases'].items]
            d = go_trace(W, g, f['default'].fields[0].fields[0].items, None, True) if f['default'].idx == 1 else None
            out.append(('match', arms, d))
        elif n == 'Go': out.append(('go',))       # the spawned call itself (closure_apply) is not an effect of this function
        else: raise Unsupported('go trace: statement ' + n)
    return out

def ob_go_lowering(r, tier, seed, depth, forms, top):
    W = e2.fresh_world(CRATES)
    LF = W.tt.find_adt(['lift', 'LiftFn'], 'compiler'); LFILE = W.tt.find_adt(['lift', 'LiftFile'], 'compiler')
    GFN = W.tt.find_adt(['goast', 'Fn'], 'compiler'); GOENV = W.tt.find_adt(['go', 'compile', 'GlobalGoEnv'], 'compiler')
    r.bounds = 'chain Lift -> anf_file -> compile_fn on bodies `f(A1, A2)` / boolean tops, sub-expressions lazily chosen to depth %d among %s' % (depth, forms)
    r.assumptions = ['oracle: the structural call trace of the emitted Go function (calls in statement order, if/else and loop bodies as sub-traces, loop = statements before / after the exit test) equals the source trace; in particular a `while` condition is evaluated inside the loop before the exit test',
                     'empty global environments (no enums/structs/traits): forms that need them are outside this obligation']
    for n in list(W.methods.get('from_lift_env', [])): W.stubs[n[1]] = lambda ex, a: Opaque('anfenv')
    CAF = [a for a in W.tt.by_name.get('ClosureApplyFn', []) if a.crate == 'compiler']
    TYa = W.tt.find_adt(['tast', 'Ty'], 'compiler')
    def stub_apply(ex, a):
        ct = ex.deref(a[1]); unit = Agg(TYa.key, TYa.vindex('TUnit'), [])
        return ms.some(Agg(CAF[0].key, 0, [mkstr('closure_apply'), Agg(TYa.key, TYa.vindex('TFunc'), [PyVec([ct]), mkbox(unit)]), unit]))
    if CAF: W.stubs['find_closure_apply_fn'] = stub_apply
    def entry(ex):
        lg = LiftGen(W, ex, forms)
        if top == 'call':
            a1, t1 = lg.expr(depth); a2, t2 = lg.expr(depth)
            body = lg.call('f', [a1, a2]); src = t1 + t2 + [('call', 'f')]
        elif top == 'go': body, src = lg.go_tail()
        else:
            body, src = lg.boolean(depth + 1)
        fn = Agg(LF.key, 0, [mkstr('main'), PyVec([]), lg.ty('TInt32') if top == 'call' else (lg.ty('TUnit') if top == 'go' else lg.ty('TBool')), body])
        h = {0: Agg('compiler::env::Gensym', 0, [Cell_(0)])}
        res = ex.call('anf::anf_file', [Opaque('liftenv'), Ref(h, 0), Agg(LFILE.key, 0, [PyVec([fn])])])
        afn = res.fields[0].fields[0].items[0]
        genv = ex.call('env::GlobalTypeEnv::new_empty', []); genv2 = ex.call('env::GlobalTypeEnv::new_empty', [])
        monoenv = ex.call('mono::GlobalMonoEnv::from_genv', [genv2]); liftenv = ex.call('lift::GlobalLiftEnv::from_monoenv', [monoenv])
        h2 = {0: Agg(GOENV.key, 0, [genv, liftenv]), 1: Agg('compiler::env::Gensym', 0, [Cell_(100)])}
        gfn = ex.call('go::compile::compile_fn', [Ref(h2, 0), Ref(h2, 1), afn])
        gf = dict(zip([x[0] for x in GFN.variants[0].fields], gfn.fields))
        gg = GoGen(W, ex)
        return norm_trace(src), norm_trace(go_trace(W, gg, gf['body'].fields[0].items))
    GEN_USED.clear(); res = e2.explore(r, W, entry, []); check_generated(r, forms)
    found = {}
    for p in res:
        r.cases += 1
        if p.kind != 'ok': found.setdefault('panic', 'anf/compile_fn panics: %s' % p.value); continue
        src, got = p.value
        if src or got: r.nontrivial += 1
        if src != got: found.setdefault('go-lowering-changes-trace', 'source trace %s, trace of the emitted Go %s' % (src, got))
        elif len(r.samples) < 3 and src: r.samples.append({'trace': str(src)})
    for k, what in found.items(): r.findings.append(Finding(k, what[:700], {}, True, 'Go function produced by the real anf_file + compile_fn MIR'))

def obligations():
    obs = [Ob('O9.1-effect-predicate-d1', 'DCE effect predicate is sound, depth 1', ob_effect_predicate, ('quick', 'thorough'), 2, dict(depth=1)),
           Ob('O9.1-effect-predicate-d2', 'DCE effect predicate is sound, depth 2', ob_effect_predicate, ('quick', 'thorough'), 10, dict(depth=2))]
    obs += [Ob('O9.3-anf-order-call-d1', 'ANF keeps the source effect trace: f(A1, A2), depth 1', ob_anf_order, ('quick', 'thorough'), 3, dict(depth=1, forms=['call1', 'call2', 'callcall', 'add', 'if', 'let', 'tuple', 'while', 'whilematch', 'whileifelse', 'unitop'], top='call')),
            Ob('O9.3-anf-order-bool-d1', 'ANF keeps short-circuit evaluation of && / ||', ob_anf_order, ('quick', 'thorough'), 3, dict(depth=1, forms=['and', 'or', 'not', 'less', 'call1', 'reads'], top='bool')),
            Ob('O9.3-anf-order-call-d2-if', 'ANF keeps the source effect trace: f(A), A of depth 2 over calls / + / if with && and ||', ob_anf_order, ('thorough',), 100, dict(depth=2, forms=['call1', 'add', 'if', 'and', 'or'], top='call1')),
            Ob('O9.3-anf-order-call-d2-let', 'ANF keeps the source effect trace: f(A1, A2), depth 2 over calls / callee expressions / let', ob_anf_order, ('thorough',), 100, dict(depth=2, forms=['call1', 'callcall', 'let'], top='call'))]
    obs += [Ob('O9.2-block-dce-2', 'block-level DCE preserves effects and the returned value: 2 statements + return', ob_block_dce, ('quick', 'thorough'), 3, dict(nstmts=2, depth=0)),
            Ob('O9.2-block-dce-3', 'block-level DCE: 3 statements + return', ob_block_dce, ('thorough',), 20, dict(nstmts=3, depth=0)),
            Ob('O9.2-block-dce-if', 'block-level DCE: 1 statement, then if/else with one assignment or call per branch, + return', ob_block_dce, ('quick', 'thorough'), 20, dict(nstmts=1, depth=1, forms=('atom', 'call', 'div'))),
            Ob('O9.2-block-dce-constif', 'block-level DCE: 1 statement, then if/else with a literal condition and 2 statements per branch, + return', ob_block_dce, ('quick', 'thorough'), 30, dict(nstmts=1, depth=1, forms=('call',), conds=('true', 'false'), branch_n=2)),
            Ob('O9.2-block-dce-switch', 'block-level DCE: 1 statement, then a value switch with two cases (+ default), + return', ob_block_dce, ('quick', 'thorough'), 30, dict(nstmts=1, depth='switch', forms=('atom', 'call'))),
            Ob('O9.2-block-dce-if2-decl', 'block-level DCE: 2 statements (the first a declaration; initialisers are calls), then if/else, + return', ob_block_dce, ('thorough',), 200, dict(nstmts=2, depth=1, forms=('call',), first='decl')),
            Ob('O9.2-block-dce-if2-call', 'block-level DCE: 2 statements (the first a call statement), then if/else, + return', ob_block_dce, ('thorough',), 200, dict(nstmts=2, depth=1, forms=('atom', 'call'), first='call'))]
    obs += [Ob('O9.3-anf-order-arith-d1', 'ANF evaluates the operands of + - * / left to right', ob_anf_order, ('quick', 'thorough'), 3, dict(depth=1, forms=['call1', 'add', 'div', 'sub', 'mul'], top='call')),
            Ob('O9.4-go-lowering-arith-d1', 'Go lowering keeps the operand order of + - * /', ob_go_lowering, ('quick', 'thorough'), 5, dict(depth=1, forms=['call1', 'add', 'div', 'sub', 'mul'], top='call'))]
    obs += [Ob('O9.2-block-dce-stores', 'block-level DCE keeps every store through a pointer / field / index, in order, with the value it stored: a store, then if/else (stores allowed in the branches), + return', ob_block_dce, ('quick', 'thorough'), 30, dict(nstmts=1, depth=1, forms=('atom', 'call'), stores=True, first='store')),
            Ob('O9.2-block-dce-stores-decl', 'same: a declaration, then any statement (a store may read the declared variable), + return', ob_block_dce, ('quick', 'thorough'), 30, dict(nstmts=2, depth=0, forms=('atom', 'call'), stores=True, first='decl'))]
    obs += [Ob('O9.3-anf-order-agg-d1', 'ANF evaluates array items, struct initialisers, dynamic-call arguments, negation operands and match scrutinees once, left to right', ob_anf_order, ('quick', 'thorough'), 5, dict(depth=1, forms=['call1', 'array', 'constr', 'dyncall', 'neg', 'matchop'], top='call'))]
    obs += [Ob('O9.4-go-lowering-agg-d1', 'Go lowering keeps the order of array items, negation operands and match scrutinees in operand position (struct literals and dynamic calls need type definitions in the Go environment: ANF level only, O9.3-agg)', ob_go_lowering, ('quick', 'thorough'), 5, dict(depth=1, forms=['call1', 'array', 'neg', 'matchop'], top='call'))]
    obs += [Ob('O9.3-anf-order-go', 'ANF keeps a `go` in tail / let / if position', ob_anf_order, ('quick', 'thorough'), 1, dict(depth=0, forms=[], top='go')),
            Ob('O9.4-go-lowering-go', 'Go lowering emits the go statement for a `go` in tail / let / if position', ob_go_lowering, ('quick', 'thorough'), 1, dict(depth=0, forms=[], top='go'))]
    obs += [Ob('O9.4-go-lowering-call-d1', 'Go lowering keeps the effect trace: f(A1, A2), depth 1 (incl. while / if / let)', ob_go_lowering, ('quick', 'thorough'), 10, dict(depth=1, forms=['call1', 'add', 'if', 'let', 'while', 'whilematch', 'whileifelse', 'unitop'], top='call')),
            Ob('O9.4-go-lowering-bool-d1', 'Go lowering keeps short-circuit branches', ob_go_lowering, ('quick', 'thorough'), 5, dict(depth=1, forms=['and', 'or', 'not', 'less', 'read1'], top='bool'))]
    return obs

META = {
    'level': 'other',
    'explanation': 'Bounded solver-checked obligations over the real optimiser/lowering code (MIR of the current tree executed symbolically on lazily initialised IR trees): the effect predicate used by dead-code elimination must never call an expression pure that may have an observable effect; block-level DCE must keep every effect once and in order; ANF must name effects in source order; `while` must re-evaluate its condition inside the loop.',
    'assumptions': ['interleavings of `go` activations (Go scheduler) are outside', 'index-out-of-range / nil dereference are not effects goml can emit outside its runtime helpers'],
    'trusted_base': ['mirsym MIR interpreter', 'library models listed per obligation', 'z3', 'effect oracle (30 lines, Go spec)'],
}

# ----------------------------------------------------------------------------- O9.5 an effectful C-expression in statement position is emitted
def ob_effect_position(r, tier, seed):
    W = e2.fresh_world(CRATES); tt = W.tt
    CE = tt.find_adt(['anf', 'CExpr'], 'compiler'); GS = tt.find_adt(['goast', 'Stmt'], 'compiler'); GE = tt.find_adt(['goast', 'Expr'], 'compiler'); GT = tt.find_adt(['goty', 'GoType'], 'compiler')
    effectful = ('ECall', 'EDynCall', 'EGo'); control = ('EMatch', 'EIf', 'EWhile')
    variants = [v.name for v in CE.variants if v.name not in control]
    r.bounds = 'compile_cexpr_effect on every anf::CExpr constructor except the control-flow ones (%s); operands opaque' % variants
    r.assumptions = ['compile_cexpr and compile_go are replaced by markers (their own translation is O9.4 / O10.x); control-flow expressions are handled before this function (its own panic message)',
                     'oracle: a call, a dynamic (trait-object) call and a `go` are emitted as a statement; the value-only constructors may be dropped']
    marker = lambda: Agg(GE.key, GE.vindex('Call'), [mkbox(Agg(GE.key, GE.vindex('Var'), [mkstr('marker'), Agg(GT.key, GT.vindex('TUnit'), [])])), PyVec([]), Agg(GT.key, GT.vindex('TUnit'), [])])
    W.stubs['compile_cexpr'] = lambda ex, a: marker()
    W.stubs['compile_go'] = lambda ex, a: Agg(GS.key, GS.vindex('Go'), [marker()])
    def entry(ex):
        vn = ex.choose([(True, v) for v in variants]); v = CE.variants[CE.vindex(vn)]
        isbox = lambda fty: bool(fty) and 'resolved_path' in fty and fty['resolved_path']['path'].split('::')[-1] == 'Box'
        c = Agg(CE.key, CE.vindex(vn), [mkbox(Opaque('operand.' + str(f[0]))) if isbox(f[1]) else Opaque('operand.' + str(f[0])) for f in v.fields])
        h = {0: Opaque('goenv'), 1: c}
        out = ex.call('go::compile::compile_cexpr_effect', [Ref(h, 0), Ref(h, 1)])
        return vn, [GS.variants[s_.idx].name for s_ in out.items]
    res = e2.explore(r, W, entry, [])
    for p in res:
        r.cases += 1
        if p.kind != 'ok':
            if not any(f.key == 'panic' for f in r.findings): r.findings.append(Finding('panic', 'compile_cexpr_effect panics: %s' % p.value, {}, False, 'not replayed'))
            continue
        vn, stmts = p.value; r.nontrivial += 1
        if vn in effectful and not stmts:
            ok_, detail = True, 'statement list returned by the real compile_cexpr_effect MIR'
            if vn == 'EDynCall':
                src = 'struct P { x: int32 }\ntrait S { fn show(Self) -> unit; }\nimpl S for P { fn show(self: P) -> unit { string_println("p") } }\nfn main() -> unit { let d: dyn S = P { x: 1 }; let i = ref(0); let _ = (while ref_get(i) < 1 { let _ = ref_set(i, 1); S::show(d) }); () }\n'
                go = compile_program(src); body = go[go.find('func main0'):].split('func main()')[0]
                loop = body[body.find('for {'):]
                ok_ = 'func main0' in go and 'vtable' not in loop; detail = 'goml program with a dyn call as the last expression of a while body: the loop in main0 is `%s`' % loop[:260].replace('\n', ' | ')
            r.findings.append(Finding('effectful-expression-dropped:' + vn, 'compile_cexpr_effect emits nothing for the effectful C-expression %s' % vn, {'constructor': vn}, ok_, detail))
        elif len(r.samples) < 4: r.samples.append({'constructor': vn, 'statements': stmts})

_c09_obl = obligations
def obligations():
    return _c09_obl() + [Ob('O9.5-effect-position', 'an effectful C-expression used only for its effect is emitted as a statement', ob_effect_position, ('quick', 'thorough'), 1, {})]

# ----------------------------------------------------------------------------- O9.6 the field initialisers of a struct literal are evaluated in the order written
def ob_struct_literal_order(r, tier, seed):
    import itertools
    W = e2.fresh_world(CRATES + ('parser',) if 'parser' not in CRATES else CRATES); tt = W.tt
    TY = tt.find_adt(['tast', 'Ty'], 'compiler'); TE = tt.find_adt(['tast', 'Expr'], 'compiler'); TP = tt.find_adt(['tast', 'Pat'], 'compiler'); PRm = tt.find_adt(['common', 'Prim'], 'compiler')
    HE = [a for a in tt.by_name['Expr'] if a.crate == 'compiler' and 'hir' in '::'.join(a.path)][0]
    SLE = [a for a in tt.by_name['StructLitElab'] if a.crate == 'compiler'][0]; SLA = [a for a in tt.by_name['StructLitArgElab'] if a.crate == 'compiler'][0]
    CO = tt.find_adt(['common', 'Constructor'], 'compiler'); SC = tt.find_adt(['common', 'StructConstructor'], 'compiler'); TI = tt.find_adt(['tast', 'TastIdent'], 'compiler')
    QP = tt.find_adt(['hir', 'QualifiedPath'], 'compiler'); HPATH = [a for a in tt.by_name['Path'] if a.crate == 'compiler' and 'hir' in '::'.join(a.path)][0]; HID = tt.find_adt(['hir', 'HirIdent'], 'compiler')
    fields = ['x', 'y', 'z']
    r.bounds = 'struct P { x, y, z: int32 } and the literal `P { .. }` with the three fields written in each of the 6 orders, initialisers (1,), (2,), (3,) in writing order (tuple expressions: initialisers that are names or literals may be reordered freely); typer::tast_builder::build_expr'
    r.assumptions = ['HirTable::expr / TypeckResults::{struct_lit_elab, expr_ty} return the chosen expressions and the elaboration the typer records (arguments in declaration order)',
                     'oracle: in the typed tree the initialisers are evaluated in the order they were written (constructor arguments are evaluated left to right - O9.3 - so either they appear in writing order or they are bound to temporaries in writing order first)']
    cur = {}
    def by_id(store):
        def f(ex, a):
            eid = a[1]
            while isinstance(eid, Agg): eid = eid.fields[-1]
            return store(eid)
        return f
    for nm in list(W.methods.get('expr', [])):
        if nm[2] is not None and nm[2].self_key == 'HirTable': W.stubs[nm[1]] = by_id(lambda i: Ref(cur['exprs'], i))
    for nm in list(W.methods.get('struct_lit_elab', [])):
        if nm[2] is not None and nm[2].self_key == 'TypeckResults': W.stubs[nm[1]] = by_id(lambda i: ms.some(Ref(cur, 'elab')) if i == 0 else ms.NONE())
    for nm in list(W.methods.get('expr_ty', [])):
        if nm[2] is not None and nm[2].self_key == 'TypeckResults': W.stubs[nm[1]] = by_id(lambda i: ms.some(Ref(cur, 'pty' if i == 0 else 'i32')))
    for nm in list(W.methods.get('coercions', [])):
        if nm[2] is not None and nm[2].self_key == 'TypeckResults': W.stubs[nm[1]] = lambda ex, a: PyVec([])
    eid = lambda i: Agg('ExprId', 0, [Agg('PackageId', 0, [1]), i])
    def entry(ex):
        order = ex.choose([(True, o) for o in itertools.permutations(fields)])
        cur['i32'] = Agg(TY.key, TY.vindex('TInt32'), []); cur['pty'] = Agg(TY.key, TY.vindex('TStruct'), [mkstr('P')])
        qp = Agg(QP.key, 0, [ms.NONE(), Agg(HPATH.key, 0, [PyVec([])])]); hid = lambda n: Agg(HID.key, HID.vindex('Name'), [mkstr(n)])
        exprs = {0: Agg(HE.key, HE.vindex('EStructLiteral'), [qp, PyVec([Agg('tuple', 0, [hid(n), eid(i + 1)]) for i, n in enumerate(order)])])}
        for i, n in enumerate(order):
            # the i-th written initialiser is the (non-trivial) tuple expression `(i+1,)`: names and literals may be reordered freely
            exprs[i + 1] = Agg(HE.key, HE.vindex('ETuple'), [PyVec([eid(10 + i + 1)])]); exprs[10 + i + 1] = Agg(HE.key, HE.vindex('EInt'), [mkstr(str(i + 1))])
        cur['exprs'] = exprs
        con = Agg(CO.key, CO.vindex('Struct'), [Agg(SC.key, 0, [Agg(TI.key, 0, [mkstr('P')])])])
        cur['elab'] = Agg(SLE.key, 0, [con, PyVec([Agg(SLA.key, SLA.vindex('Expr'), [eid(order.index(f_) + 1)]) for f_ in fields])])
        h = {0: Opaque('hir_table'), 1: Opaque('results')}
        out = ex.call('typer::tast_builder::build_expr', [Ref(h, 0), Ref(h, 1), eid(0)])
        # evaluation order of the literals in the typed tree
        seq = []; env = {}
        def val(e):
            e = unbox(e) if isinstance(e, Agg) and e.ty == 'Box' else e
            n = TE.variants[e.idx].name; f = dict(zip([x[0] for x in TE.variants[e.idx].fields], e.fields))
            if n == 'EPrim': seq.append(int(f['value'].fields[0])); return
            if n == 'EVar': return
            if n == 'ETuple':
                for a_ in f['items'].items: val(a_)
                return
            if n == 'EConstr':
                for a_ in f['args'].items: val(a_)
                return
            if n == 'EBlock':
                for x in f['exprs'].items: val(x)
                return
            if n == 'ELet': val(f['value']); return
            raise Unsupported('evaluation order of tast::Expr::' + n)
        val(out)
        return order, seq
    res = e2.explore(r, W, entry, [])
    for p in res:
        r.cases += 1
        if p.kind != 'ok':
            if not any(f.key == 'panic' for f in r.findings): r.findings.append(Finding('panic', 'build_expr panics: %s' % p.value, {}, False, 'not replayed'))
            continue
        order, seq = p.value; r.nontrivial += 1
        if seq != [1, 2, 3]:
            if r.findings: continue
            lit = ', '.join('%s: f("w%d", %d)' % (n, i + 1, i + 1) for i, n in enumerate(order))
            src = 'struct P { x: int32, y: int32, z: int32 }\nfn f(s: string, n: int32) -> int32 { let _ = string_println(s); n }\nfn main() -> unit { let p = P { %s }; string_println(int32_to_string(p.x + p.y + p.z)) }\n' % lit
            go = compile_program(src); body = go[go.find('func main0'):].split('func main()')[0]
            pos = [body.find('"w%d"' % (i + 1)) for i in range(3)]
            ok_ = all(x != -1 for x in pos) and pos != sorted(pos)
            r.findings.append(Finding('struct-literal-fields-reordered', 'the literal `P { %s }` evaluates its initialisers in the order %s of writing positions (not the order written)' % (', '.join('%s: %d' % (n, i + 1) for i, n in enumerate(order)), seq), {'order': list(order), 'evaluated': seq}, ok_,
                                      'goml `P { %s }`: in the emitted main0 the calls appear in the order %s' % (lit, [x[1] for x in sorted(zip(pos, ['w1', 'w2', 'w3']))])))
        elif len(r.samples) < 3: r.samples.append({'written': list(order), 'evaluated': seq})

_c09_obl2 = obligations
def obligations():
    return _c09_obl2() + [Ob('O9.6-struct-literal-order', 'field initialisers of a struct literal are evaluated in the order written', ob_struct_literal_order, ('quick', 'thorough'), 1, {})]

_c09_obl3 = obligations
def obligations():
    from props import core_ob
    return _c09_obl3() + core_ob.obligations()

"""C09 - evaluation order and effects: what DCE may drop (effect predicate, block-level DCE), ANF order, `while` lowering (E2)."""
import json, os, subprocess, tempfile, shutil
import z3
from vlib import e2, build
from vlib.core import Ob, Finding
import mirsym as ms
from mirsym.lazy import Spec, force
from mirsym.engine import Agg, LazyEnum, PyVec, Str, Ref, Opaque, PyMap, PySet, Unsupported, Panic, unbox, mkbox, mkstr, Cell_

CRATES = ('compiler', 'common_defs', 'diagnostics')
INT_TYPES = ['TInt8', 'TInt16', 'TInt32', 'TInt64', 'TUint8', 'TUint16', 'TUint32', 'TUint64']

def compile_program(src, flags=('--dump-go',)):
    d = tempfile.mkdtemp(prefix='vf-c09-')
    try:
        path = os.path.join(d, 'main.gom'); open(path, 'w').write(src)
        r_ = subprocess.run([build.compiler_bin(), 'run'] + list(flags) + [path], capture_output=True, text=True, timeout=60)
        return r_.stdout + r_.stderr
    finally:
        shutil.rmtree(d, ignore_errors=True)

# ----------------------------------------------------------------------------- O9.1 effect predicate
class EffOracle:
    """may this Go expression have an observable effect?  (Go spec: calls; integer division by a possibly-zero divisor.)
    Index out of range and nil dereference are outside: goml never emits a raw Index outside its runtime helpers and its pointers are
    never nil (stated assumptions).  A sub-tree the predicate never inspected counts as possibly effectful."""
    def __init__(s, ex, GE, GS, GT, GB): s.ex, s.GE, s.GS, s.GT, s.GB = ex, GE, GS, GT, GB; s.why = None
    def variant(s, v):
        if isinstance(v, Agg): return v.idx, v.fields
        cur = s.ex.dom.get(v.d.get_id())
        if cur is not None and cur[1] == 'in' and len(cur[2]) == 1:
            k = next(iter(cur[2])); f = v.variants.get(k)
            if f is not None or not v.adt.variants[k].fields: return k, f or []
        return None, None
    LEAVES = ('Var', 'Nil', 'Void', 'Unit', 'Bool', 'Int', 'Float', 'String')
    def expr(s, e):
        if isinstance(e, Agg) and e.ty == 'Box': e = unbox(e)
        k, f = s.variant(e)
        if k is None:
            cur = s.ex.dom.get(e.d.get_id()) if isinstance(e, LazyEnum) else None
            if cur is not None and cur[1] == 'in' and all(s.GE.variants[i].name in s.LEAVES for i in cur[2]): return False
            s.why = 'a sub-expression was never inspected'; return True
        n = s.GE.variants[k].name; fd = dict(zip([x[0] for x in s.GE.variants[k].fields], f))
        if n == 'Call': s.why = 'call'; return True
        if n in ('Var', 'Nil', 'Void', 'Unit', 'Bool', 'Int', 'Float', 'String'): return False
        if n == 'BinaryOp':
            ok_, of = s.variant(fd['op']); tk, tf = s.variant(fd['ty'])
            if ok_ is None or tk is None: s.why = 'operator/type not inspected'
            isdiv = s.may_be(fd['op'], s.GB, ['Div'])
            isint = s.may_be_int(fd['ty']) and s.may_be_int(s.ty_of(fd['lhs'])) and s.may_be_int(s.ty_of(fd['rhs']))      # an integer division in every consistent typing
            if isdiv and isint and not s.nonzero_literal(fd['rhs']): s.why = 'integer division by a possibly-zero divisor'; return True
            return s.expr(fd['lhs']) or s.expr(fd['rhs'])
        if n in ('UnaryOp', 'Cast'): return s.expr(fd['expr'])
        if n == 'FieldAccess': return s.expr(fd['obj'])
        if n == 'Index': return s.expr(fd['array']) or s.expr(fd['index'])
        if n == 'StructLiteral': return any(s.expr(x.fields[1]) for x in fd['fields'].items)
        if n == 'ArrayLiteral': return any(s.expr(x) for x in fd['elems'].items)
        if n == 'Block':
            if fd['stmts'].items: s.why = 'statement block'; return True
            o = fd['expr']
            if isinstance(o, LazyEnum):
                ko, fo = s.variant(o)
                if ko is None: s.why = 'block tail not inspected'; return True
                return False if ko == 0 else s.expr(fo[0])
            return False if o.idx == 0 else s.expr(o.fields[0])
        raise Unsupported('oracle: goast::Expr::' + n)
    def may_be(s, t, adt, names):
        if t is None: return True
        if isinstance(t, Agg): return adt.variants[t.idx].name in names
        cur = s.ex.dom.get(t.d.get_id())
        if cur is None: return True
        want = {adt.vindex(n) for n in names}
        return bool(cur[2] & want) if cur[1] == 'in' else bool(want - cur[2])
    def may_be_int(s, t): return s.may_be(t, s.GT, INT_TYPES)
    def ty_of(s, e):
        if isinstance(e, Agg) and e.ty == 'Box': e = unbox(e)
        k, f = s.variant(e)
        if k is None:
            if isinstance(e, LazyEnum):
                # all constructors carry `ty` as their last field; if exactly the inspected variants are materialised take theirs
                tys = [fl[-1] for fl in e.variants.values()]
                return tys[0] if len(tys) == 1 else None
            return None
        return f[-1] if f else None
    def nonzero_literal(s, e):
        if isinstance(e, Agg) and e.ty == 'Box': e = unbox(e)
        k, f = s.variant(e)
        if k is None or s.GE.variants[k].name != 'Int': return False
        try: return int(ms.pystr(f[0])) != 0
        except Exception: return False

def describe(ex, v, tt_cache={}):
    """printable form of a (partially lazy) goast value; an unconstrained operator / type is shown with the witness choice Div / TInt32"""
    if isinstance(v, Agg) and v.ty == 'Box': return describe(ex, unbox(v))
    if isinstance(v, LazyEnum):
        cur = ex.dom.get(v.d.get_id())
        if v.adt.name == 'GoBinaryOp' and (cur is None or v.adt.vindex('Div') in cur[2]) and not (cur is not None and len(cur[2]) == 1): return 'Div (any operator reaches this path)'
        if v.adt.name == 'GoType' and (cur is None or v.adt.vindex('TInt32') in cur[2]) and not (cur is not None and len(cur[2]) == 1): return 'TInt32 (any type reaches this path)'
        if cur is not None and cur[1] == 'in' and len(cur[2]) > 1 and v.adt.name == 'Expr': return 'one of ' + '|'.join(v.adt.variants[i].name for i in sorted(cur[2]))
        if cur is not None and cur[1] == 'in' and len(cur[2]) == 1:
            k = next(iter(cur[2])); f = v.variants.get(k) or []
            return {v.adt.variants[k].name: [describe(ex, x) for x in f]} if f else v.adt.variants[k].name
        return '?' + v.adt.name
    if isinstance(v, Agg):
        if v.ty in ('tuple',): return [describe(ex, x) for x in v.fields]
        return v.ty.split('::')[-1] + '#%d' % v.idx + (str([describe(ex, x) for x in v.fields]) if v.fields else '')
    if isinstance(v, PyVec): return [describe(ex, x) for x in v.items]
    if isinstance(v, Str): return ms.pystr(v)
    if ms.is_sym(v): return str(v)
    return v

def ob_effect_predicate(r, tier, seed, depth):
    W = e2.fresh_world(CRATES)
    GE = W.tt.find_adt(['goast', 'Expr'], 'compiler'); GS = W.tt.find_adt(['goast', 'Stmt'], 'compiler')
    GT = W.tt.find_adt(['goty', 'GoType'], 'compiler'); GB = W.tt.find_adt(['goast', 'GoBinaryOp'], 'compiler')
    leaf_ty = [n for n in GT.vnames() if n not in ('TStruct', 'TPointer', 'TFunc', 'TArray', 'TSlice', 'TName')]
    spec = Spec(W.tt, allowed={'GoType': leaf_ty}, leaves={'GoType': leaf_ty, 'Expr': ['Var', 'Int', 'Call', 'Nil']}, strings=('0', '7'), vec_len=(0, 1), depth=depth,
                field_hooks={('Expr', 'Block', 'stmts'): lambda sp, ex, d, p: PyVec([]), ('Expr', 'Float', 'value'): lambda sp, ex, d, p: Opaque('float', text='1.0'),
                             ('Expr', 'Call', 'args'): lambda sp, ex, d, p: PyVec([]),
                             ('Expr', 'Call', 'func'): lambda sp, ex, d, p: mkbox(Agg(GE.key, GE.vindex('Var'), [mkstr('f'), Agg(GT.key, GT.vindex('TUnit'), [])]))})
    r.bounds = 'every goast::Expr of depth <= %d over all %d constructors, all binary/unary operators, result types %s, integer literals {0, 7}, lists of 0..1 elements (statement blocks empty)' % (depth, len(GE.variants), leaf_ty)
    r.assumptions = ['oracle (Go spec): a call, or an integer `/` whose divisor is not a non-zero literal, may have an observable effect; index-out-of-range and nil dereference are excluded: goml emits raw Index nodes only inside runtime helpers and never creates nil pointers',
                     'a sub-tree the predicate did not inspect is treated as possibly effectful']
    def entry(ex):
        h = [spec.root(ex, 'goast::Expr', tag='e')]
        res = ex.call('go::dce::expr_has_side_effects', [Ref(h, 0)])
        if ms.is_sym(res): res = ex.branch_bool(res)
        o = EffOracle(ex, GE, GS, GT, GB)
        may = o.expr(h[0])
        return bool(res), may, o.why, describe(ex, h[0])
    res = e2.explore(r, W, entry, [])
    found = {}
    for p in res:
        r.cases += 1
        if p.kind != 'ok': raise Unsupported('predicate panicked: %s' % p.value)
        pure_says, may, why, desc = not p.value[0], p.value[1], p.value[2], p.value[3]
        if pure_says: r.nontrivial += 1
        if pure_says and may:
            key = 'div-judged-pure' if why and 'division' in why else ('uninspected-subtree' if why and 'inspected' in why else 'effect-judged-pure')
            if key not in found: found[key] = (desc, why)
        elif len(r.samples) < 3 and pure_says: r.samples.append({'expr': desc, 'pure': True})
    for key, (desc, why) in found.items():
        ok, detail = (False, '')
        if key == 'div-judged-pure':
            src = 'fn zero() -> int32 { 0 }\nfn main() -> unit {\n  let z = zero();\n  let a = 10 / z;\n  string_println("after")\n}\n'
            go = compile_program(src); body = go[go.find('func main0'):]
            ok = 'func main0' in go and '/' not in body.split('func main()')[0]
            detail = 'goml program `let z = zero(); let a = 10 / z; string_println("after")`: emitted main0 contains no division: ' + body.split('func main()')[0][:300].replace('\n', ' | ')
        r.findings.append(Finding(key, 'expr_has_side_effects judges an expression pure that may have an effect (%s): %s' % (why, json.dumps(desc)[:300]), {'expr': desc, 'why': why}, ok, detail))

def obligations():
    obs = [Ob('O9.1-effect-predicate-d1', 'DCE effect predicate is sound, depth 1', ob_effect_predicate, ('quick', 'thorough'), 2, dict(depth=1)),
           Ob('O9.1-effect-predicate-d2', 'DCE effect predicate is sound, depth 2', ob_effect_predicate, ('quick', 'thorough'), 10, dict(depth=2))]
    return obs

META = {
    'level': 'other',
    'explanation': 'Bounded solver-checked obligations over the real optimiser/lowering code (MIR of the current tree executed symbolically on lazily initialised IR trees): the effect predicate used by dead-code elimination must never call an expression pure that may have an observable effect; block-level DCE must keep every effect once and in order; ANF must name effects in source order; `while` must re-evaluate its condition inside the loop.',
    'assumptions': ['interleavings of `go` activations (Go scheduler) are outside', 'index-out-of-range / nil dereference are not effects goml can emit outside its runtime helpers'],
    'trusted_base': ['mirsym MIR interpreter', 'library models listed per obligation', 'z3', 'effect oracle (30 lines, Go spec)'],
}

"""C06 - first-match pattern semantics: the real match compiler (make_rows + compile_rows) vs first-match on a symbolic scrutinee (E2)."""
import json, os, subprocess, tempfile, shutil
import z3
from vlib import e2, build
from vlib.core import Ob, Finding
import mirsym as ms
from mirsym.engine import Agg, PyVec, Str, Ref, Opaque, PyMap, Cell_, Unsupported, Panic, unbox, mkbox, mkstr

CRATES = ('compiler', 'common_defs', 'diagnostics', 'parser')

class Ctx:
    def __init__(s, W):
        tt = W.tt
        s.TY = tt.find_adt(['tast', 'Ty'], 'compiler'); s.TE = tt.find_adt(['tast', 'Expr'], 'compiler'); s.TP = tt.find_adt(['tast', 'Pat'], 'compiler')
        s.PR = tt.find_adt(['common', 'Prim'], 'compiler'); s.CE = tt.find_adt(['core', 'Expr'], 'compiler'); s.TA = tt.find_adt(['tast', 'Arm'], 'compiler')
    def ty(s, n, *f): return Agg(s.TY.key, s.TY.vindex(n), list(f))
    def tybool(s): return s.ty('TBool')
    def tyint(s): return s.ty('TInt32')
    def tytuple(s, items): return s.ty('TTuple', PyVec(items))
    def prim(s, n, v): return Agg(s.PR.key, s.PR.vindex(n), [v])
    def mk(s, adt, n, **kw):
        v = adt.variants[adt.vindex(n)]; return Agg(adt.key, adt.vindex(n), [kw[f[0]] for f in v.fields])
    def texpr(s, n, **kw): return s.mk(s.TE, n, **kw)
    def tpat(s, n, **kw): return s.mk(s.TP, n, **kw)

# scrutinee type descriptions: 'b' bool, 'i' int32, ('t', [..]) tuple
ENUM1 = ('E', [('V0', []), ('V1', ['i']), ('V2', [])])      # enum E { V0, V1(int32), V2 }
ENUM2 = ('E', [('V0', []), ('V1', ['i', 'i']), ('V2', ['i'])])      # enum E { V0, V1(int32, int32), V2(int32) }: payload fields by position
ENUM = ENUM1      # set per obligation (ob_match)
def ty_value(c, t):
    if t == 'b': return c.tybool()
    if t == 'i': return c.tyint()
    if t == 'e': return c.ty('TEnum', mkstr(ENUM[0]))
    if t == 's': return c.ty('TString')
    if t == 'p': return c.ty('TStruct', mkstr('P'))
    return c.tytuple([ty_value(c, x) for x in t[1]])

class Gen:
    """lazily chosen pattern of type t; records a python description and the first-match condition over the symbolic scrutinee"""
    def __init__(s, c, ex, lits): s.c, s.ex, s.lits = c, ex, lits; s.nlit = 0; s.vars = []
    def pat(s, t, sval, depth, row):
        """returns (tast::Pat value, description, z3 condition 'matches sval', bindings [(name, value)])"""
        c = s.c; opts = ['wild', 'var', 'lit'] if t in ('b', 'i') else (['wild', 'var', 'tuple'] if depth > 0 else ['wild', 'var'])
        k = s.ex.choose([(True, o) for o in opts])
        tyv = ty_value(c, t)
        if k == 'wild': return c.tpat('PWild', ty=tyv), '_', z3.BoolVal(True), []
        if k == 'var':
            name = 'v%d_%d' % (row, len(s.vars)); s.vars.append((name, t, sval))
            return c.tpat('PVar', name=mkstr(name), ty=tyv, astptr=ms.NONE()), name, z3.BoolVal(True), [(name, t, sval)]
        if k == 'lit':
            lv = s.lits[s.nlit]; s.nlit += 1
            if t == 'b': return c.tpat('PPrim', value=c.prim('Bool', lv), ty=tyv), ('lit', lv), sval == lv, []
            return c.tpat('PPrim', value=c.prim('Int32', lv), ty=tyv), ('lit', lv), sval == lv, []
        items, descs, conds, binds = [], [], [], []
        for i, st in enumerate(t[1]):
            p, d, cnd, b = s.pat(st, sval[i], depth - 1, row); items.append(p); descs.append(d); conds.append(cnd); binds += b
        return c.tpat('PTuple', items=PyVec(items), ty=tyv), ('tuple', descs), z3.And(*conds), binds

class EnumVal:
    def __init__(s, tag, payload, payload1=None): s.tag, s.payload = tag, payload; s.payloads = [payload, payload1]
STRUCT = ('P', [('x', 'i'), ('y', 'b')])      # struct P { x: int32, y: bool }
class StructVal(EnumVal):
    def __init__(s, *fields): s.tag = None; s.payloads = list(fields); s.payload = fields[0]
def sym_scrutinee(t, path='s'):
    if t == 'b': return z3.Bool(path)
    if t == 'i': return z3.Int(path)
    if t == 's': return z3.Int(path + '_str')          # string identity: 0,1,2 = "a","b","c"; 3 = any other string
    if t == 'e': return EnumVal(z3.Int(path + '_tag'), z3.Int(path + '_p'), z3.Int(path + '_q'))
    if t == 'p': return StructVal(z3.Int(path + '_x'), z3.Bool(path + '_y'))
    return [sym_scrutinee(x, '%s_%d' % (path, i)) for i, x in enumerate(t[1])]
def scrut_vars(v):
    if isinstance(v, StructVal): return list(v.payloads)
    if isinstance(v, EnumVal): return [v.tag, v.payload, v.payloads[1]]
    return [v] if not isinstance(v, list) else [y for x in v for y in scrut_vars(x)]

MISSING = -777
STRS = ['a', 'b', 'c']
FALLTHROUGH = -888      # an EMatch without default in which no arm matches: the emitted switch does nothing (NOT a failure)
class Eval:
    """evaluator of the produced core::Expr over a symbolic scrutinee; results are z3 Int terms (booleans as 0/1, tuples as lists)"""
    def __init__(s, c): s.c = c; s.CE = c.CE
    def ev(s, e, env):
        if isinstance(e, Agg) and e.ty == 'Box': e = unbox(e)
        n = s.CE.variants[e.idx].name; f = dict(zip([x[0] for x in s.CE.variants[e.idx].fields], e.fields))
        if n == 'EPrim':
            p = f['value']; pn = s.c.PR.variants[p.idx].name; v = p.fields[0]
            if pn == 'Unit': return z3.IntVal(0)
            if pn == 'String':
                sv_ = ms.pystr(v)
                if sv_ not in STRS: raise Unsupported('core evaluator: string literal %r' % sv_)
                return z3.IntVal(STRS.index(sv_))
            if pn == 'Bool': return ms.zi(v)
            return ms.zi(v)
        if n == 'EVar':
            k = ms.pystr(f['name'])
            if k not in env: raise Unsupported('core evaluator: unbound variable %s' % k)
            return env[k]
        if n == 'ELet':
            env2 = dict(env); env2[ms.pystr(f['name'])] = s.ev(f['value'], env); return s.ev(f['body'], env2)
        if n == 'EProj':
            t = s.ev(f['tuple'], env); return t[f['index']]
        if n == 'ETuple': return [s.ev(x, env) for x in f['items'].items]
        if n == 'EConstr':
            con = f['constructor']                      # Constructor::Enum(EnumConstructor{type_name, variant, index})
            return ('ctor', con.fields[0].fields[2])
        if n == 'EConstrGet':
            v = s.ev(f['expr'], env)
            if not isinstance(v, EnumVal): raise Unsupported('core evaluator: EConstrGet on a non-enum / non-struct value')
            return v.payloads[f['field_index']]
        if n == 'ECall':
            fn = f['func']; fn = unbox(fn) if isinstance(fn, Agg) and fn.ty == 'Box' else fn
            if s.CE.variants[fn.idx].name == 'EVar' and ms.pystr(fn.fields[0]) == 'missing': return z3.IntVal(MISSING)
            raise Unsupported('core evaluator: call')
        if n == 'EMatch':
            sc = s.ev(f['expr'], env); d = f['default']
            out = z3.IntVal(FALLTHROUGH) if d.idx == 0 else s.ev(d.fields[0], env)
            for arm in reversed(f['arms'].items):
                lhs, body = arm.fields; lv = s.ev(lhs, env); bv = s.ev(body, env)
                if isinstance(lv, tuple) and lv[0] == 'ctor':
                    out = z3.If(sc.tag == lv[1], bv, out); continue
                cond = (sc == lv) if not (z3.is_int(lv) and z3.is_bool(sc)) else (sc == (lv != 0))
                if z3.is_bool(sc) and z3.is_bool(lv): cond = sc == lv
                out = z3.If(cond, bv, out) if not isinstance(bv, list) else [z3.If(cond, x, y) for x, y in zip(bv, out)]
            return out
        if n == 'EBlock':
            r_ = z3.IntVal(0)
            for x in f['exprs'].items: r_ = s.ev(x, env)
            return r_
        raise Unsupported('core evaluator: ' + n)

def toint(v): return z3.If(v, 1, 0) if z3.is_bool(v) else v

def dump_value(v, depth=0):
    """structural dump of an interpreter value (aggregates, vectors, strings, boxes); used to compare two decision trees"""
    from mirsym.engine import Agg as A_, PyVec as V_, Str as S_, Ref as R_
    if depth > 200: return '...'
    if isinstance(v, R_): return dump_value(v.get(), depth + 1)
    if isinstance(v, A_) and v.ty == 'Box': return dump_value(unbox(v), depth + 1)
    if isinstance(v, S_):
        try: return ms.pystr(v)
        except Exception: return 'str?'
    if isinstance(v, A_): return (str(v.ty), v.idx, tuple(dump_value(x, depth + 1) for x in v.fields))
    if isinstance(v, V_): return tuple(dump_value(x, depth + 1) for x in v.items)
    if isinstance(v, (int, bool, str)) or v is None: return v
    if isinstance(v, (list, tuple)): return tuple(dump_value(x, depth + 1) for x in v)
    return str(v)[:80]

def ob_match(r, tier, seed, sty, rows, depth, bind_row=None, flat=False, force0=None, unit_result=False, hash_symbolic=False, enum2=False):
    global ENUM
    ENUM = ENUM2 if enum2 else ENUM1
    W = e2.fresh_world(CRATES); c = Ctx(W)
    if hash_symbolic: W.hash_order = 'symbolic'
    nl = rows * 4
    uses_enum = 'e' in json.dumps(sty)
    sv = sym_scrutinee(sty); flat_t = []
    def leaf_types(t): return [t] if t in ('b', 'i', 's', 'p', 'e') else [y for x in t[1] for y in leaf_types(x)]
    lits_b = [z3.Bool('lb%d' % i) for i in range(nl)]; lits_i = [z3.Int('li%d' % i) for i in range(nl)]
    assumptions = [z3.And(x >= -2**31, x < 2**31) for x in lits_i + [v for v in scrut_vars(sv) if z3.is_int(v)]]
    def enum_tags(v):
        if isinstance(v, StructVal): return []
        if isinstance(v, EnumVal): return [v.tag]
        return [y for x in v for y in enum_tags(x)] if isinstance(v, list) else []
    assumptions += [z3.And(t_ >= 0, t_ < len(ENUM[1])) for t_ in enum_tags(sv)]
    assumptions += [z3.And(v >= 0, v <= len(STRS)) for v in scrut_vars(sv) if z3.is_int(v) and str(v).endswith('_str')]
    r.bounds = ('unit-typed match (every arm is `()`); ' if unit_result else '') + ('' if force0 is None else 'shard: the leaf patterns of row 0 are %s; ' % list(force0)) + 'every matrix of %d rows over a scrutinee of type %s; each pattern lazily wildcard / variable / literal with symbolic value / tuple (depth <= %d)%s; scrutinee value symbolic' % (rows, json.dumps(sty), depth, '; flat rows: every row is a tuple of wildcard-or-literal' if flat else '')
    r.assumptions = ['row bodies are distinct integer literals 100+r; a row that binds a variable returns that variable when it is an int, so a wrong binding changes the result',
                     'oracle: first arm in source order whose pattern matches; integer matrices without a catch-all must be rejected with a diagnostic; otherwise no match => missing()',
                     'gensym names, GlobalTypeEnv::new_empty (no enums/structs in scope)']
    class LitPool:
        def __init__(s): s.b = 0; s.i = 0
    def entry(ex):
        g = Gen(c, ex, None); arms = []; conds = []; bodies = []; descs = []
        pool = {'b': 0, 'i': 0}
        class L(list): pass
        def lit_for(t):
            k = pool[t]; pool[t] += 1
            return lits_b[k] if t == 'b' else lits_i[k]
        g.lits = None
        # patch literal draw to be type directed
        def pat(t, sval, d, row):
            opts = ['wild', 'var', 'lit'] if t in ('b', 'i') else (['wild', 'var', 'tuple'] if d > 0 else ['wild', 'var'])
            if flat: opts = ['wild', 'lit'] if t in ('b', 'i') else ['tuple']
            if t == 's': opts = ['wild', 'sa', 'sb', 'sc'] + ([] if flat else ['var'])
            if t == 'e': opts = ['wild', 'c0', 'c1', 'c2'] + ([] if flat else ['var'])
            if t == 'p': opts = ['wild', 'st'] + ([] if flat else ['var'])
            if force0 is not None and row == 0 and t != sty and forced:
                k = forced.pop(0)
                if k not in opts: raise Unsupported('forced option %s not in %s' % (k, opts))
            else: k = ex.choose([(True, o) for o in opts])
            tyv = ty_value(c, t)
            if k == 'wild': return c.tpat('PWild', ty=tyv), '_', z3.BoolVal(True), []
            if k == 'var':
                name = 'v%d_%d' % (row, len(g.vars)); g.vars.append(name)
                return c.tpat('PVar', name=mkstr(name), ty=tyv, astptr=ms.NONE()), name, z3.BoolVal(True), [(name, t, sval)]
            if k in ('sa', 'sb', 'sc'):
                return c.tpat('PPrim', value=c.prim('String', mkstr(k[1])), ty=tyv), 'lit("%s")' % k[1], sval == STRS.index(k[1]), []
            if k == 'st':
                SCn = W.tt.find_adt(['common', 'StructConstructor'], 'compiler'); CO = W.tt.find_adt(['common', 'Constructor'], 'compiler'); TI = W.tt.find_adt(['tast', 'TastIdent'], 'compiler')
                con = Agg(CO.key, CO.vindex('Struct'), [Agg(SCn.key, 0, [Agg(TI.key, 0, [mkstr(STRUCT[0])])])])
                subs, ds, cs, bs = [], [], [], []
                for j_, (fn_, st) in enumerate(STRUCT[1]):
                    p_, d_, cn, b = pat(st, sval.payloads[j_], d - 1, row); subs.append(p_); ds.append('%s: %s' % (fn_, d_)); cs.append(cn); bs += b
                return c.tpat('PConstr', constructor=con, args=PyVec(subs), ty=tyv), 'P { %s }' % ', '.join(ds), z3.And(*cs), bs
            if k in ('c0', 'c1', 'c2'):
                idx = int(k[1]); vname, vargs = ENUM[1][idx]
                EC = W.tt.find_adt(['common', 'EnumConstructor'], 'compiler'); CO = W.tt.find_adt(['common', 'Constructor'], 'compiler'); TI = W.tt.find_adt(['tast', 'TastIdent'], 'compiler')
                con = Agg(CO.key, CO.vindex('Enum'), [Agg(EC.key, 0, [Agg(TI.key, 0, [mkstr(ENUM[0])]), Agg(TI.key, 0, [mkstr(vname)]), idx])])
                subs, ds, cs, bs = [], [], [sval.tag == idx], []
                for j_, st in enumerate(vargs):
                    p_, d_, cn, b = pat(st, sval.payloads[j_], d - 1, row); subs.append(p_); ds.append(d_); cs.append(cn); bs += b
                return c.tpat('PConstr', constructor=con, args=PyVec(subs), ty=tyv), '%s(%s)' % (vname, ', '.join(map(str, ds))), z3.And(*cs), bs
            if k == 'lit':
                lv = lit_for(t)
                return c.tpat('PPrim', value=c.prim('Bool' if t == 'b' else 'Int32', lv), ty=tyv), 'lit(%s)' % lv, sval == lv, []
            items, ds, cs, bs = [], [], [], []
            for i, st in enumerate(t[1]):
                p, d_, cn, b = pat(st, sval[i], d - 1, row); items.append(p); ds.append(d_); cs.append(cn); bs += b
            return c.tpat('PTuple', items=PyVec(items), ty=tyv), '(' + ', '.join(ds) + ')', z3.And(*cs) if cs else z3.BoolVal(True), bs
        forced = list(force0) if force0 is not None else None
        for row in range(rows):
            p, d, cond, binds = pat(sty, sv, depth, row)
            intb = [b for b in binds if b[1] == 'i']
            if unit_result:
                # every arm is `()`: only "some arm runs" vs "the match fails" is observable
                body = c.texpr('EPrim', value=c.prim('Unit', ms.UNIT), ty=c.ty('TUnit')); bval = z3.IntVal(0)
            elif intb:
                body = c.texpr('EVar', name=mkstr(intb[0][0]), ty=c.tyint(), astptr=ms.NONE()); bval = intb[0][2]
            else:
                body = c.texpr('EPrim', value=c.prim('Int32', 100 + row), ty=c.tyint()); bval = z3.IntVal(100 + row)
            arms.append(Agg(c.TA.key, 0, [p, body])); conds.append(cond); bodies.append(bval); descs.append(d)
        genv = ex.call('env::GlobalTypeEnv::new_empty', [])
        if uses_enum:
            ED = W.tt.find_adt(['env', 'EnumDef'], 'compiler'); TI = W.tt.find_adt(['tast', 'TastIdent'], 'compiler')
            GTE = W.tt.find_adt(['env', 'GlobalTypeEnv'], 'compiler'); TEN = W.tt.find_adt(['env', 'TypeEnv'], 'compiler')
            edef = Agg(ED.key, 0, [Agg(TI.key, 0, [mkstr(ENUM[0])]), PyVec([]), PyVec([Agg('tuple', 0, [Agg(TI.key, 0, [mkstr(vn)]), PyVec([ty_value(c, a) for a in va])]) for vn, va in ENUM[1]])])
            te = genv.fields[[f[0] for f in GTE.variants[0].fields].index('type_env')]
            em = te.fields[[f[0] for f in TEN.variants[0].fields].index('enums')]
            em.keys.append(Agg(TI.key, 0, [mkstr(ENUM[0])])); em.vals.append(edef)
        if 'p' in json.dumps(sty):
            SD = W.tt.find_adt(['env', 'StructDef'], 'compiler'); TI = W.tt.find_adt(['tast', 'TastIdent'], 'compiler')
            GTE = W.tt.find_adt(['env', 'GlobalTypeEnv'], 'compiler'); TEN = W.tt.find_adt(['env', 'TypeEnv'], 'compiler')
            sdef = Agg(SD.key, 0, [Agg(TI.key, 0, [mkstr(STRUCT[0])]), PyVec([]), PyVec([Agg('tuple', 0, [Agg(TI.key, 0, [mkstr(fn_)]), ty_value(c, ft)]) for fn_, ft in STRUCT[1]])])
            te = genv.fields[[f[0] for f in GTE.variants[0].fields].index('type_env')]
            sm = te.fields[[f[0] for f in TEN.variants[0].fields].index('structs')]
            sm.keys.append(Agg(TI.key, 0, [mkstr(STRUCT[0])])); sm.vals.append(sdef)
        DI = W.tt.find_adt(['diagnostics', 'Diagnostics'], 'diagnostics')
        h = {0: genv, 1: Agg('compiler::env::Gensym', 0, [Cell_(0)]), 2: Agg(DI.key, 0, [PyVec([])]), 3: c.ty('TUnit') if unit_result else c.tyint(), 4: PyVec(arms), 5: mkstr('s')}
        rws = ex.call('make_rows', [Ref(h, 5), Ref(h, 4)])
        core = ex.call('compile_rows', [Ref(h, 0), Ref(h, 1), Ref(h, 2), rws, Ref(h, 3), ms.NONE()])
        ndiag = len(h[2].fields[0].items)
        if hash_symbolic: return dump_value(core), ndiag, descs
        env = {'s': sv}
        try: got = Eval(c).ev(core, env)
        except (z3.Z3Exception, TypeError, IndexError, AttributeError) as e_:
            return ('ill-typed', '%s: %s' % (type(e_).__name__, str(e_)[:160])), None, ndiag, descs, z3.Or(*conds)
        exp = z3.IntVal(MISSING)
        for cond, bv in reversed(list(zip(conds, bodies))): exp = z3.If(cond, bv, exp)
        return got, exp, ndiag, descs, z3.Or(*conds)
    res = e2.explore(r, W, entry, assumptions)
    found = {}
    if hash_symbolic: return res
    for p in res:
        r.cases += 1
        if p.kind != 'ok':
            found.setdefault('panic', ('match compiler panics: %s' % p.value, p, None)); continue
        got, exp, ndiag, descs, anymatch = p.value
        has_int_lit_no_catchall = None
        if ndiag > 0:
            # compile-time rejection is allowed only when some value matches no arm (non-exhaustive)
            m, dt = e2.check(assumptions + p.pc + [z3.Not(anymatch)]); r.queries += 1; r.solver_s += dt
            if m is None: found.setdefault('exhaustive-match-rejected', ('an exhaustive match is rejected with a diagnostic: rows %s' % descs, p, None))
            r.nontrivial += 1; continue
        if isinstance(got, tuple) and got[0] == 'ill-typed':
            r.nontrivial += 1
            found.setdefault('ill-typed-tree', ('the decision tree for rows %s is ill-typed (a projection reads the wrong component): evaluating it fails with %s' % (descs, got[1]), p, (descs, None, None))); continue
        m, dt = e2.check(assumptions + p.pc + [got != exp]); r.queries += 1; r.solver_s += dt
        r.nontrivial += 1
        if m is not None:
            sval_ = {str(v): e2.mval(m, v) for v in scrut_vars(sv)}
            lits = {str(v): e2.mval(m, v) for v in lits_b + lits_i if str(v) in ' '.join(descs)}
            found.setdefault('not-first-match', ('decision tree disagrees with first-match: rows %s, literals %s, scrutinee %s: tree gives %s, first-match gives %s' % (
                descs, lits, sval_, m.eval(got, True), m.eval(exp, True)), p, (descs, lits, sval_)))
        elif len(r.samples) < 3: r.samples.append({'rows': descs})
    for key, (what, p, wit) in found.items():
        r.findings.append(Finding(key, what, {'witness': wit}, True, 'decision tree produced by the real compile_rows on this matrix, evaluated on the model\'s scrutinee'))

def _obligations_matrix():
    TB = ('t', ['b', 'b']); TBI = ('t', ['b', 'i'])
    return [
        Ob('O6.1-bool-3', 'match compiler == first-match, bool scrutinee, 3 rows', ob_match, ('quick', 'thorough'), 1, dict(sty='b', rows=3, depth=0)),
        Ob('O6.1-int-3', 'match compiler == first-match (or rejection), int32 scrutinee, 3 rows', ob_match, ('quick', 'thorough'), 2, dict(sty='i', rows=3, depth=0)),
        Ob('O6.1-boolbool-2', 'match compiler == first-match, (bool,bool) scrutinee, 2 rows', ob_match, ('quick', 'thorough'), 3, dict(sty=TB, rows=2, depth=1)),
        Ob('O6.1-boolint-2', 'match compiler == first-match, (bool,int32) scrutinee, 2 rows', ob_match, ('quick', 'thorough'), 3, dict(sty=TBI, rows=2, depth=1)),
        Ob('O6.1-boolbool-3', 'match compiler == first-match, (bool,bool) scrutinee, 3 rows', ob_match, ('quick', 'thorough'), 30, dict(sty=TB, rows=3, depth=1)),
        Ob('O6.1-boolint-3', 'match compiler == first-match, (bool,int32) scrutinee, 3 rows', ob_match, ('quick', 'thorough'), 30, dict(sty=TBI, rows=3, depth=1)),
        Ob('O6.1-nested-2', 'match compiler == first-match, ((bool,int32),bool) scrutinee, 2 rows', ob_match, ('quick', 'thorough'), 30, dict(sty=('t', [TBI, 'b']), rows=2, depth=2)),
        Ob('O6.1-int-4', 'match compiler == first-match (or rejection), int32 scrutinee, 4 rows', ob_match, ('thorough',), 5, dict(sty='i', rows=4, depth=0)),
        Ob('O6.1-intint-3', 'match compiler == first-match, (int32,int32) scrutinee, 3 rows', ob_match, ('thorough',), 60, dict(sty=('t', ['i', 'i']), rows=3, depth=1)),
        Ob('O6.1-boolbool-4', 'match compiler == first-match, (bool,bool) scrutinee, 4 rows', ob_match, ('thorough',), 200, dict(sty=TB, rows=4, depth=1)),
        Ob('O6.1-enum-3', 'match compiler == first-match, enum E { V0, V1(int32), V2 } scrutinee, 3 rows (no arm => missing)', ob_match, ('quick', 'thorough'), 10, dict(sty='e', rows=3, depth=1)),
        Ob('O6.1-boolenum-3-flat', 'match compiler == first-match, (bool, E) scrutinee, 3 flat rows', ob_match, ('quick', 'thorough'), 10, dict(sty=('t', ['b', 'e']), rows=3, depth=2, flat=True)),
        Ob('O6.1-boolint-4-flat', 'match compiler == first-match, (bool,int32), 4 rows of (wildcard|literal, wildcard|literal)', ob_match, ('quick', 'thorough'), 10, dict(sty=TBI, rows=4, depth=1, flat=True)),
        Ob('O6.1-intint-4-flat', 'match compiler == first-match, (int32,int32), 4 rows of (wildcard|literal, wildcard|literal)', ob_match, ('quick', 'thorough'), 10, dict(sty=('t', ['i', 'i']), rows=4, depth=1, flat=True)),
        Ob('O6.1-intintbool-3-flat', 'match compiler == first-match, (int32,int32,bool), 3 flat rows', ob_match, ('quick', 'thorough'), 10, dict(sty=('t', ['i', 'i', 'b']), rows=3, depth=1, flat=True)),
        Ob('O6.1-enum2-3', 'match compiler == first-match, enum E { V0, V1(int32, int32), V2(int32) } scrutinee, 3 rows (payload fields bound by position)', ob_match, ('quick', 'thorough'), 20, dict(sty='e', rows=3, depth=1, enum2=True)),
        Ob('O6.1-boolenum2-2-flat', 'match compiler == first-match, (bool, E) with two-field payloads, 2 flat rows', ob_match, ('quick', 'thorough'), 10, dict(sty=('t', ['b', 'e']), rows=2, depth=2, flat=True, enum2=True)),
        Ob('O6.1-enum-3-unit', 'unit-typed match on enum E: an unmatched variant must fail, not continue', ob_match, ('quick', 'thorough'), 10, dict(sty='e', rows=3, depth=1, unit_result=True)),
        Ob('O6.1-boolint-2-unit', 'unit-typed match on (bool,int32), 2 rows', ob_match, ('quick', 'thorough'), 5, dict(sty=TBI, rows=2, depth=1, unit_result=True)),
        Ob('O6.1-struct-3', 'match compiler == first-match, struct P { x: int32, y: bool } scrutinee, 3 rows (field patterns)', ob_match, ('quick', 'thorough'), 10, dict(sty='p', rows=3, depth=1)),
        Ob('O6.1-structint-3', 'match compiler == first-match, (P, int32) scrutinee, 3 rows: rows that do and do not look at the struct', ob_match, ('quick', 'thorough'), 40, dict(sty=('t', ['p', 'i']), rows=3, depth=2, flat=True)),
        Ob('O6.1-str-3', 'match compiler == first-match, string scrutinee, 3 rows over the literals "a" "b" "c"', ob_match, ('quick', 'thorough'), 5, dict(sty='s', rows=3, depth=0)),
        Ob('O6.1-intstr-3-flat', 'match compiler == first-match, (int32,string), 3 flat rows', ob_match, ('quick', 'thorough'), 20, dict(sty=('t', ['i', 's']), rows=3, depth=1, flat=True)),
    ] + [
        Ob('O6.1-intstr-4-flat-%s-%s' % (a, b), 'match compiler == first-match, (int32,string), 4 flat rows, row 0 = (%s, %s)' % (a, b), ob_match, ('quick', 'thorough'), 25, dict(sty=('t', ['i', 's']), rows=4, depth=1, flat=True, force0=(a, b)))
        for a in ('wild', 'lit') for b in ('wild', 'sa', 'sb', 'sc')] + [
        Ob('O6.1-enumintint-3-flat', 'match compiler == first-match, (E,int32,int32), 3 flat rows (constructor payload patterns)', ob_match, ('thorough',), 450, dict(sty=('t', ['e', 'i', 'i']), rows=3, depth=2, flat=True)),
        Ob('O6.1-boolint-4', 'match compiler == first-match, (bool,int32) scrutinee, 4 rows', ob_match, ('thorough',), 200, dict(sty=TBI, rows=4, depth=1)),
        Ob('O6.1-intint-4', 'match compiler == first-match, (int32,int32) scrutinee, 4 rows', ob_match, ('thorough',), 300, dict(sty=('t', ['i', 'i']), rows=4, depth=1)),
        Ob('O6.1-nested-3', 'match compiler == first-match, ((bool,int32),bool) scrutinee, 3 rows', ob_match, ('thorough',), 200, dict(sty=('t', [TBI, 'b']), rows=3, depth=2)),
    ]

META = {
    'level': 'other',
    'explanation': 'Bounded solver-checked obligation over the real match compiler: the MIR of make_rows, compile_rows, move_variable_patterns, branch_variable, compile_{bool,int,tuple,unit}_case(+_impl and closures), compile_expr, Gensym and the derived Clone impls of the current tree is executed on pattern matrices whose shapes are solver decisions and whose literal values are symbolic; the produced core::Expr decision tree is evaluated by a small evaluator over a symbolic scrutinee and z3 decides, per path, whether any scrutinee/literal valuation makes it differ from first-match over the source rows (no arm matches => missing(); an integer matrix may be rejected at compile time only if it is not exhaustive).',
    'assumptions': ['the ANF/Go lowering of the tree is outside the claim; struct columns: one non-generic struct P { x: int32, y: bool }', 'scrutinee evaluated once: see C09'],
    'trusted_base': ['mirsym MIR interpreter', 'library models listed per obligation', 'z3', 'core evaluator (40 lines) and first-match oracle'],
}

def obligations():
    from props import pat_ob
    return _obligations_matrix() + pat_ob.obligations_c06()

# ----------------------------------------------------------------------------- O6.3 the scrutinee of a match is evaluated (exactly once) even when no arm inspects it
def ob_scrutinee_once(r, tier, seed, **kw):
    """the C09 O9.7 exploration (compile_match::compile_expr on blocks of statements, effects = calls): among the statement values are `match f() { _ => 7 }` and
    `match f() { w => 7 }` and destructuring lets of tuples of calls - the Core must call f exactly once, before anything that follows"""
    from props import core_ob
    core_ob.ob_core_block_effects(r, tier, seed, **kw)
_c06_obl3 = obligations
def obligations():
    return _c06_obl3() + [Ob('O6.3-scrutinee-evaluated-once', 'a match / destructuring let evaluates its scrutinee exactly once, whatever its arms inspect', ob_scrutinee_once, ('quick', 'thorough'), 5, {})]

# ----------------------------------------------------------------------------- O6.4 after ANF every enum arm is still headed by the index of ITS constructor (the Go type switch is built from these tags)
def ob_anf_arm_tags(r, tier, seed):
    from props import c09
    from mirsym.engine import Cell_, Opaque as Opq
    W = e2.fresh_world(c09.CRATES); tt = W.tt
    LF = tt.find_adt(['lift', 'LiftFn'], 'compiler'); LFILE = tt.find_adt(['lift', 'LiftFile'], 'compiler'); LA = tt.find_adt(['lift', 'LiftArm'], 'compiler'); LE = tt.find_adt(['lift', 'LiftExpr'], 'compiler')
    AFN = tt.find_adt(['anf', 'Fn'], 'compiler'); AE = tt.find_adt(['anf', 'AExpr'], 'compiler'); CEX = tt.find_adt(['anf', 'CExpr'], 'compiler'); IE = tt.find_adt(['anf', 'ImmExpr'], 'compiler'); AARM = [a for a in tt.by_name['Arm'] if a.crate == 'compiler' and 'anf' in '::'.join(a.path)][0]
    CO = tt.find_adt(['common', 'Constructor'], 'compiler'); EC = tt.find_adt(['common', 'EnumConstructor'], 'compiler'); TI = tt.find_adt(['tast', 'TastIdent'], 'compiler'); PR = tt.find_adt(['common', 'Prim'], 'compiler'); TY = tt.find_adt(['tast', 'Ty'], 'compiler')
    VARIANTS = ['Red', 'Amber', 'Green', 'Off']
    r.bounds = 'anf::anf_file on `fn main(x: Light) -> int32 { match x { <arms> [default] } }` over enum Light { Red, Amber, Green, Off } (the variants Amber and Off carry one int32 field): the arms are a solver-chosen non-empty subset of the variants in a solver-chosen order (ascending or descending), each arm body the literal 10 * (constructor index + 1), with or without a default'
    r.assumptions = ['GlobalAnfEnv::from_lift_env receives an opaque environment', 'oracle: in the ANF match every arm whose body is the literal of variant i is headed by ImmTag { index: i }, the arms keep their number and the default is kept iff it was there - the Go backend builds the type switch from exactly these tags']
    L = lambda n, **kw: Agg(LE.key, LE.vindex(n), [kw[f[0]] for f in LE.variants[LE.vindex(n)].fields])
    T = lambda n, *f: Agg(TY.key, TY.vindex(n), list(f))
    ident = lambda n: Agg(TI.key, 0, [mkstr(n)])
    i32 = lambda: T('TInt32'); ety = lambda: T('TEnum', mkstr('Light'))
    lit = lambda v: L('EPrim', value=Agg(PR.key, PR.vindex('Int32'), [v]), ty=i32())
    def entry(ex):
        present = [ex.choose([(True, True), (True, False)]) for _ in VARIANTS]
        if not any(present): present[1] = True
        desc = ex.choose([(True, False), (True, True)]); dflt = ex.choose([(True, False), (True, True)])
        idxs = [i for i, p_ in enumerate(present) if p_]
        if desc: idxs = idxs[::-1]
        arms = []
        for i in idxs:
            payload = PyVec([L('EVar', name=mkstr('w%d' % i), ty=i32())]) if VARIANTS[i] in ('Amber', 'Off') else PyVec([])
            head = L('EConstr', constructor=Agg(CO.key, CO.vindex('Enum'), [Agg(EC.key, 0, [{'type_name': ident('Light'), 'variant': ident(VARIANTS[i]), 'index': i}[f[0]] for f in EC.variants[0].fields])]), args=payload, ty=ety())
            arms.append(Agg(LA.key, 0, [head, lit(10 * (i + 1))]))
        m = L('EMatch', expr=mkbox(L('EVar', name=mkstr('x'), ty=ety())), arms=PyVec(arms), default=ms.some(mkbox(lit(99))) if dflt else ms.NONE(), ty=i32())
        fn = Agg(LF.key, 0, [mkstr('main'), PyVec([Agg('tuple', 0, [mkstr('x'), ety()])]), i32(), m])
        h = {0: Agg('compiler::env::Gensym', 0, [Cell_(0)])}
        res = ex.call('anf::anf_file', [Opq('liftenv'), Ref(h, 0), Agg(LFILE.key, 0, [PyVec([fn])])])
        afn = res.fields[0].fields[0].items[0]; body = dict(zip([x[0] for x in AFN.variants[0].fields], afn.fields))['body']
        def find_match(a):
            a = unbox(a) if isinstance(a, Agg) and a.ty == 'Box' else a
            if a.ty == AE.key:
                n = AE.variants[a.idx].name; f = dict(zip([x[0] for x in AE.variants[a.idx].fields], a.fields))
                if n == 'ALet': return find_match(f['value']) or find_match(f['body'])
                return find_match(f['expr'])
            if a.ty == CEX.key and CEX.variants[a.idx].name == 'EMatch': return dict(zip([x[0] for x in CEX.variants[a.idx].fields], a.fields))
            return None
        mf = find_match(body)
        if mf is None: return idxs, dflt, None
        out = []
        for arm in mf['arms'].items:
            af = dict(zip([x[0] for x in AARM.variants[0].fields], arm.fields)); lhs = af['lhs']
            tag = dict(zip([x[0] for x in IE.variants[lhs.idx].fields], lhs.fields)).get('index') if IE.variants[lhs.idx].name == 'ImmTag' else IE.variants[lhs.idx].name
            b = af['body']; b = unbox(b) if isinstance(b, Agg) and b.ty == 'Box' else b
            val = None
            def lit_of(a):
                a = unbox(a) if isinstance(a, Agg) and a.ty == 'Box' else a
                if a.ty == AE.key:
                    f = dict(zip([x[0] for x in AE.variants[a.idx].fields], a.fields)); return lit_of(f.get('expr') if 'expr' in f else f['body'])
                if a.ty == CEX.key and CEX.variants[a.idx].name == 'CImm': return lit_of(a.fields[0])
                if a.ty == IE.key and IE.variants[a.idx].name == 'ImmPrim': return a.fields[0].fields[0]
                return None
            out.append((tag, lit_of(b)))
        return idxs, dflt, (out, mf['default'].idx == 1)
    for n in list(W.methods.get('from_lift_env', [])): W.stubs[n[1]] = lambda ex, a: Opq('anfenv')
    def ov(f, g):
        if g.endswith('GlobalAnfEnv::from_lift_env'):
            def m_from_lift_env(ex, f_, a): return Opq('anfenv')
            return m_from_lift_env
        return None
    W.overrides = [ov]
    res = e2.explore(r, W, entry, [])
    for p in res:
        r.cases += 1
        if p.kind != 'ok':
            if not any(f.key == 'panic' for f in r.findings): r.findings.append(Finding('panic', 'anf_file panics on an enum match: %s' % str(p.value)[:200], {}, False, 'not replayed'))
            continue
        idxs, dflt, out = p.value; r.nontrivial += 1
        want = ([(i, 10 * (i + 1)) for i in idxs], dflt)
        if out is None or (out[0], out[1]) != want:
            if r.findings: continue
            r.findings.append(Finding('arm-tag-not-constructor-index', 'match over Light with arms for %s%s: the ANF arms are (tag, body) %s%s; every arm must be headed by the index of its own constructor' % ([VARIANTS[i] for i in idxs], ' and a default' if dflt else '', out[0] if out else None, '' if out is None or out[1] == dflt else ' and the default was %s' % ('added' if out[1] else 'dropped')),
                                      {'arms': [VARIANTS[i] for i in idxs], 'default': dflt}, True, 'arm heads produced by the real anf::anf_file MIR on that Lift match'))
        elif len(r.samples) < 3 and len(idxs) > 1: r.samples.append({'arms': [VARIANTS[i] for i in idxs], 'tags': [t for t, _ in out[0]]})

_c06_obl4 = obligations
def obligations():
    return _c06_obl4() + [Ob('O6.4-anf-arm-tags', 'after ANF every enum arm is headed by the index of its own constructor', ob_anf_arm_tags, ('quick', 'thorough'), 3, {})]

"""C07 - generic instantiation: 'distinct instantiations never share a name' through encode_ty, and the type kernels of monomorphisation (E2)."""
from props import enc_ob
def obligations():
    from props import mono_ob
    return enc_ob.obligations('O7.1-encode_ty') + mono_ob.obligations()
META = {
    'level': 'other',
    'explanation': 'Bounded solver-checked obligation over the real encode_ty (MIR of the current tree, incl. its format! templates and iterator chains): lazily initialised tast::Ty inputs (constructor, name and list-length choices are solver decisions) are encoded and the encodings of distinct types must differ; collisions are replayed through the native function. Known collision classes are role predicates in known_findings.json. O7.2: mono::subst_ty / has_tparam / unify are executed on lazily built template types and every instantiation of their parameters: the instantiated type has no parameter left and unify recovers exactly the instantiation (the step by which a generic call site selects its instance); a rejection is replayed through the CLI with a generated program. Naming and these kernels are the claimed facets of C07.',
    'assumptions': ['behaviour of instance bodies, termination of specialisation over whole programs, spec_name_for (external pretty crate) are outside the claim'],
    'trusted_base': ['mirsym MIR interpreter', 'library models listed per obligation', 'z3'],
}

_c07_obl9 = obligations
def obligations():
    from props import mono_ob
    return _c07_obl9() + mono_ob.obligations_instance_fields()

"""C07 - generic instantiation: claimed only for 'distinct instantiations never share a name' through encode_ty (E2)."""
from props import enc_ob
def obligations(): return enc_ob.obligations('O7.1-encode_ty')
META = {
    'level': 'other',
    'explanation': 'Bounded solver-checked obligation over the real encode_ty (MIR of the current tree, incl. its format! templates and iterator chains): lazily initialised tast::Ty inputs (constructor, name and list-length choices are solver decisions) are encoded and the encodings of distinct types must differ; collisions are replayed through the native function. Known collision classes are role predicates in known_findings.json. Only the naming facet of C07 is claimed.',
    'assumptions': ['behaviour of instances, termination of specialisation, spec_name_for (external pretty crate) are outside the claim'],
    'trusted_base': ['mirsym MIR interpreter', 'library models listed per obligation', 'z3'],
}

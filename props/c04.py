"""C04 - the compiler never crashes or hangs: claimed for the parser (E2) and the fuel / scanner kernels (E1)."""
from props import parser_ob
def obligations():
    parser_ob.ACCEPT_KEYS = {'panic', 'hang'}
    obs = parser_ob.obligations_seq('O4.2') + parser_ob.obligations_templates('O4.2')
    from props import selftest_ob, lower_ob
    obs += lower_ob.obligations_lower('O4.4') + lower_ob.obligations_numbers()
    from props import c04_pkg
    obs += c04_pkg.obligations()
    obs += string_nopanic_obligations()
    from props import pat_ob
    obs += pat_ob.obligations_c04()
    obs += selftest_ob.parser_obligations('O4.0')
    obs += parser_ob.obligations_long_lookahead('O4.10')
    try:
        from props import e1_obs
        obs += e1_obs.c04_obligations()
    except ImportError: pass
    return obs
META = {
    'level': 'other',
    'explanation': 'Bounded solver-checked obligations over the real parser: the MIR of Parser::new, file::file (and everything it calls: items, statements, expressions, patterns, types, recovery) and Parser::build_tree of the current tree is executed symbolically with token kinds as solver variables over the full TokenKind list; rowan is replaced by a recorder that enforces its own panicking contract. On every feasible path: no panic edge (assert!, unreachable!, index, unwrap, overflow) is taken, Open/Close events balance, the run terminates within the step limit (a path exceeding it is replayed natively under a timeout and reported only if the native parser hangs). Inputs: all token sequences up to the stated length and valid skeletons with arbitrary holes.',
    'assumptions': ['O4.4 extends the claim to CST->AST lowering (ast::lower executed from MIR on a model of the rowan red tree, validated against the native pipeline on corpus programs); the logos DFA, name resolution, typer and later stages are outside this claim', 'token texts abstract; TokenKind Display stubbed', 'stack depth on deep nesting is not modelled'],
    'trusted_base': ['mirsym MIR interpreter', 'std/rowan models listed per obligation', 'z3', 'rustc nightly MIR dump', 'rustdoc JSON type tables'],
}


def ob_string_literal_nopanic(r, tier, seed, items):
    """O4.6: the string-literal path of ast::lower + escape_go_string never panics (same exploration as C11 O11.3, only the panic findings count here)"""
    from props import c11
    c11.ob_string_literal(r, tier, seed, items)
    r.findings = [f for f in r.findings if f.key == 'panic']

def string_nopanic_obligations():
    from vlib.core import Ob
    return [Ob('O4.6-string-literal-nopanic-1', 'lowering a lexer-accepted string literal never panics: 1 item', ob_string_literal_nopanic, ('quick', 'thorough'), 1, dict(items=1)),
            Ob('O4.6-string-literal-nopanic-2', 'lowering a lexer-accepted string literal never panics: 2 items', ob_string_literal_nopanic, ('quick', 'thorough'), 3, dict(items=2))]

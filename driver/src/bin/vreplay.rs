// Reads one JSON request per line on stdin: {"fn": <name>, "args": [...]}; prints one JSON answer per line.
use serde_json::{json, Value};
use std::io::BufRead;

fn ty_from_json(v: &Value) -> compiler::tast::Ty {
    use compiler::tast::{Ty, TastIdent};
    let k = v["k"].as_str().unwrap();
    let sub = |i: usize| Box::new(ty_from_json(&v["a"][i]));
    let list = |x: &Value| x.as_array().unwrap().iter().map(ty_from_json).collect::<Vec<_>>();
    match k {
        "TUnit" => Ty::TUnit, "TBool" => Ty::TBool, "TInt8" => Ty::TInt8, "TInt16" => Ty::TInt16, "TInt32" => Ty::TInt32, "TInt64" => Ty::TInt64,
        "TUint8" => Ty::TUint8, "TUint16" => Ty::TUint16, "TUint32" => Ty::TUint32, "TUint64" => Ty::TUint64,
        "TFloat32" => Ty::TFloat32, "TFloat64" => Ty::TFloat64, "TString" => Ty::TString,
        "TParam" => Ty::TParam { name: v["name"].as_str().unwrap().to_string() },
        "TEnum" => Ty::TEnum { name: v["name"].as_str().unwrap().to_string() },
        "TStruct" => Ty::TStruct { name: v["name"].as_str().unwrap().to_string() },
        "TDyn" => Ty::TDyn { trait_name: v["name"].as_str().unwrap().to_string() },
        "TTuple" => Ty::TTuple { typs: list(&v["a"]) },
        "TArray" => Ty::TArray { len: v["len"].as_u64().unwrap() as usize, elem: sub(0) },
        "TVec" => Ty::TVec { elem: sub(0) },
        "TRef" => Ty::TRef { elem: sub(0) },
        "TFunc" => { let mut l = list(&v["a"]); let r = l.pop().unwrap(); Ty::TFunc { params: l, ret_ty: Box::new(r) } }
        "TApp" => Ty::TApp { ty: Box::new(ty_from_json(&v["base"])), args: list(&v["a"]) },
        _ => { let _ = TastIdent("".into()); panic!("unknown type kind {k}") }
    }
}

fn handle(req: &Value) -> Value {
    let f = req["fn"].as_str().unwrap_or("");
    let a = &req["args"];
    match f {
        "go_ident" => json!(compiler::go::mangle::go_ident(a[0].as_str().unwrap())),
        "encode_ty" => json!(compiler::go::mangle::encode_ty(&ty_from_json(&a[0]))),
        _ => json!({"error": format!("unknown fn {f}")}),
    }
}

fn main() {
    for line in std::io::stdin().lock().lines() {
        let line = line.unwrap();
        if line.trim().is_empty() { continue; }
        let req: Value = serde_json::from_str(&line).unwrap();
        let r = std::panic::catch_unwind(|| handle(&req));
        match r {
            Ok(v) => println!("{}", json!({"ok": v})),
            Err(_) => println!("{}", json!({"panic": true})),
        }
    }
}

// Reads one JSON request per line on stdin: {"fn": <name>, "args": [...]}; prints one JSON answer per line.
use serde_json::{json, Value};
use std::io::BufRead;

fn ty_from_json(v: &Value) -> compiler::tast::Ty {
    use compiler::tast::{Ty, TastIdent};
    let k = v["k"].as_str().unwrap();
    let sub = |i: usize| Box::new(ty_from_json(&v["a"][i]));
    let list = |x: &Value| x.as_array().unwrap().iter().map(ty_from_json).collect::<Vec<_>>();
    match k {
        "TUnit" => Ty::TUnit, "TBool" => Ty::TBool, "TInt8" => Ty::TInt8, "TInt16" => Ty::TInt16, "TInt32" => Ty::TInt32, "TInt64" => Ty::TInt64,
        "TUint8" => Ty::TUint8, "TUint16" => Ty::TUint16, "TUint32" => Ty::TUint32, "TUint64" => Ty::TUint64,
        "TFloat32" => Ty::TFloat32, "TFloat64" => Ty::TFloat64, "TString" => Ty::TString,
        "TParam" => Ty::TParam { name: v["name"].as_str().unwrap().to_string() },
        "TEnum" => Ty::TEnum { name: v["name"].as_str().unwrap().to_string() },
        "TStruct" => Ty::TStruct { name: v["name"].as_str().unwrap().to_string() },
        "TDyn" => Ty::TDyn { trait_name: v["name"].as_str().unwrap().to_string() },
        "TTuple" => Ty::TTuple { typs: list(&v["a"]) },
        "TArray" => Ty::TArray { len: v["len"].as_u64().unwrap() as usize, elem: sub(0) },
        "TVec" => Ty::TVec { elem: sub(0) },
        "TRef" => Ty::TRef { elem: sub(0) },
        "TFunc" => { let mut l = list(&v["a"]); let r = l.pop().unwrap(); Ty::TFunc { params: l, ret_ty: Box::new(r) } }
        "TApp" => Ty::TApp { ty: Box::new(ty_from_json(&v["base"])), args: list(&v["a"]) },
        _ => { let _ = TastIdent("".into()); panic!("unknown type kind {k}") }
    }
}

fn kind_table(names: &Value) -> Vec<lexer::TokenKind> {
    // discriminant index -> TokenKind; names come from the type table of the current tree and are checked against Debug
    let mut out = Vec::new();
    for (i, n) in names.as_array().unwrap().iter().enumerate() {
        let k: lexer::TokenKind = unsafe { std::mem::transmute::<u8, lexer::TokenKind>(i as u8) };
        assert_eq!(format!("{:?}", k), n.as_str().unwrap());
        out.push(k);
    }
    out
}

fn parse_kinds(a: &Value) -> Value {
    let table = kind_table(&a[1]);
    let idx = |n: &str| a[1].as_array().unwrap().iter().position(|x| x.as_str() == Some(n)).unwrap();
    let kinds: Vec<lexer::TokenKind> = a[0].as_array().unwrap().iter().map(|n| table[idx(n.as_str().unwrap())]).collect();
    let texts: Vec<&'static str> = (0..kinds.len()).map(|i| &*Box::leak(format!("t{i}").into_boxed_str())).collect();
    let toks: Vec<lexer::Token<'static>> = kinds.iter().enumerate().map(|(i, k)| lexer::Token { kind: *k, text: texts[i],
        range: rowan::TextRange::new((i as u32).into(), (i as u32 + 1).into()) }).collect();
    let mut p = parser::parser::Parser::new(std::path::Path::new("x.gom"), toks);
    parser::file::file(&mut p);
    let res = p.build_tree();
    let (green, diags) = res.into_parts();
    let root: parser::syntax::MySyntaxNode = rowan::SyntaxNode::new_root(green);
    let tree_tokens: Vec<String> = root.descendants_with_tokens().filter_map(|e| e.into_token()).map(|t| t.text().to_string()).collect();
    let n = kinds.len() as u32;
    let mut bad = 0;
    for d in diags.iter() {
        if let Some(r) = d.range() { let (s, e): (u32, u32) = (r.start().into(), r.end().into()); if !(s <= e && e <= n) { bad += 1; } }
    }
    json!({"root": format!("{:?}", root.kind()), "tree_tokens": tree_tokens, "input_tokens": texts, "diagnostics": diags.len(), "bad_ranges": bad})
}

fn show_expr(e: &ast::ast::Expr) -> String {
    use ast::ast::Expr::*;
    match e {
        EPath { path, .. } => path.segments.iter().map(|s| s.ident.0.clone()).collect::<Vec<_>>().join("::"),
        EField { expr, field, .. } => format!("({}.{})", show_expr(expr), field.0),
        ECall { func, args, .. } => {
            let f = match &**func { EPath { .. } | ECall { .. } | EField { .. } => show_expr(func), _ => format!("({})", show_expr(func)) };
            format!("{}({})", f, args.iter().map(show_expr).collect::<Vec<_>>().join(", "))
        }
        EUnary { op, expr, .. } => format!("({:?} {})", op, show_expr(expr)),
        EBinary { op, lhs, rhs, .. } => format!("({} {:?} {})", show_expr(lhs), op, show_expr(rhs)),
        other => { let d = format!("{:?}", other); format!("<{}>", d.split(|c: char| !c.is_alphanumeric()).next().unwrap_or("")) }
    }
}

fn show_type(t: &ast::ast::TypeExpr) -> String {
    use ast::ast::TypeExpr::*;
    match t {
        TCon { path } => path.segments.iter().map(|s| s.ident.0.clone()).collect::<Vec<_>>().join("::"),
        TTuple { typs } => format!("({})", typs.iter().map(show_type).collect::<Vec<_>>().join(", ")),
        TFunc { params, ret_ty } => format!("(({}) -> {})", params.iter().map(show_type).collect::<Vec<_>>().join(", "), show_type(ret_ty)),
        other => { let d = format!("{:?}", other); format!("<{}>", d.split(|c: char| !c.is_alphanumeric()).next().unwrap_or("")) }
    }
}

fn lower_kinds(a: &Value) -> Value {
    // tokens given by kind names (+ texts): real parser, real tree, real ast::lower
    let table = kind_table(&a[1]);
    let idx = |n: &str| a[1].as_array().unwrap().iter().position(|x| x.as_str() == Some(n)).unwrap();
    let kinds: Vec<lexer::TokenKind> = a[0].as_array().unwrap().iter().map(|n| table[idx(n.as_str().unwrap())]).collect();
    let texts: Vec<&'static str> = a[2].as_array().unwrap().iter().map(|t| &*Box::leak(t.as_str().unwrap().to_string().into_boxed_str())).collect();
    let mut pos = 0u32;
    let toks: Vec<lexer::Token<'static>> = kinds.iter().enumerate().map(|(i, k)| { let s = pos; pos += texts[i].len() as u32;
        lexer::Token { kind: *k, text: texts[i], range: rowan::TextRange::new(s.into(), pos.into()) } }).collect();
    let mut p = parser::parser::Parser::new(std::path::Path::new("x.gom"), toks);
    parser::file::file(&mut p);
    let (green, _d) = p.build_tree().into_parts();
    let root: parser::syntax::MySyntaxNode = rowan::SyntaxNode::new_root(green);
    let file = <cst::cst::File as cst::cst::CstNode>::cast(root).unwrap();
    let (astf, diags) = ast::lower::lower(file).into_parts();
    let mut bad = 0;
    for d in diags.iter() { if let Some(r) = d.range() { let e: u32 = r.end().into(); if e > pos { bad += 1; } } }
    json!({"has_ast": astf.is_some(), "diagnostics": diags.len(), "bad_ranges": bad})
}

fn handle(req: &Value) -> Value {
    let f = req["fn"].as_str().unwrap_or("");
    let a = &req["args"];
    match f {
        "go_ident" => json!(compiler::go::mangle::go_ident(a[0].as_str().unwrap())),
        "retag_interface" => {
            // interface JSON -> same unit with other version numbers and a self-consistent hash
            let mut u: compiler::artifact::InterfaceUnit = serde_json::from_str(a[0].as_str().unwrap()).unwrap();
            u.format_version = a[1].as_u64().unwrap() as u32;
            u.compiler_abi = a[2].as_u64().unwrap() as u32;
            u.interface_hash = u.compute_hash();
            json!(serde_json::to_string(&u).unwrap())
        }
        "parse_kinds" => parse_kinds(a),
        "lower_kinds" => lower_kinds(a),
        "lex" => {
            let toks = lexer::lex(a[0].as_str().unwrap());
            json!(toks.iter().map(|t| json!([format!("{:?}", t.kind), t.text, u32::from(t.range.start()), u32::from(t.range.end())])).collect::<Vec<_>>())
        }
        "lower_text" => {
            let r = parser::parse(std::path::Path::new("x.gom"), a[0].as_str().unwrap());
            let (green, _d) = r.into_parts();
            let root: parser::syntax::MySyntaxNode = rowan::SyntaxNode::new_root(green);
            let file = <cst::cst::File as cst::cst::CstNode>::cast(root).unwrap();
            let res = ast::lower::lower(file);
            let (astf, diags) = res.into_parts();
            let items: Vec<String> = astf.as_ref().map(|f| f.toplevels.iter().map(|i| { let d = format!("{:?}", i); d.split(|c: char| !c.is_alphanumeric()).next().unwrap_or("").to_string() }).collect()).unwrap_or_default();
            json!({"has_ast": astf.is_some(), "diagnostics": diags.len(), "items": items,
                   "debug_len": astf.as_ref().map(|f| format!("{:?}", f.toplevels).len()).unwrap_or(0)})
        }
        "lower_expr_shape" => {
            // grouping of the single expression in the body of the first fn, after the real parser and the real ast::lower
            let r = parser::parse(std::path::Path::new("x.gom"), a[0].as_str().unwrap());
            let (green, _d) = r.into_parts();
            let root: parser::syntax::MySyntaxNode = rowan::SyntaxNode::new_root(green);
            let file = <cst::cst::File as cst::cst::CstNode>::cast(root).unwrap();
            let (astf, _diags) = ast::lower::lower(file).into_parts();
            let f = astf.unwrap();
            let body = f.toplevels.iter().find_map(|i| if let ast::ast::Item::Fn(f) = i { Some(f.body.clone()) } else { None }).unwrap();
            match body { ast::ast::Expr::EBlock { exprs, .. } => json!(show_expr(exprs.last().unwrap())), e => json!(show_expr(&e)) }
        }
        "lower_type_shape" => {
            // grouping of the type of the first parameter of the first fn, after the real parser and the real ast::lower
            let r = parser::parse(std::path::Path::new("x.gom"), a[0].as_str().unwrap());
            let (green, _d) = r.into_parts();
            let root: parser::syntax::MySyntaxNode = rowan::SyntaxNode::new_root(green);
            let file = <cst::cst::File as cst::cst::CstNode>::cast(root).unwrap();
            let (astf, _diags) = ast::lower::lower(file).into_parts();
            let f = astf.unwrap();
            let ty = f.toplevels.iter().find_map(|i| if let ast::ast::Item::Fn(f) = i { f.params.first().map(|p| p.1.clone()) } else { None });
            match ty { Some(t) => json!(show_type(&t)), None => json!({"error": "no parameter"}) }
        }
        "parse_text" => {
            let r = parser::parse(std::path::Path::new("x.gom"), a[0].as_str().unwrap());
            let (green, diags) = r.into_parts();
            json!({"diagnostics": diags.iter().map(|d| d.message().to_string()).collect::<Vec<_>>(), "tree": parser::debug_tree(&green)})
        }
        "query_all" => {
            // every editor query at every line / column of a small grid around the text (and one far outside): must return normally
            let src = a[0].as_str().unwrap(); let path = std::path::Path::new("q.gom");
            let lines = src.split('\n').count() as u32; let mut n = 0u32;
            for line in 0..lines + 2 { for col in 0..(src.len() as u32 + 3) {
                let _ = compiler::query::hover_type(path, src, line, col); let _ = compiler::query::dot_completions(path, src, line, col);
                let _ = compiler::query::colon_colon_completions(path, src, line, col); n += 1; } }
            let _ = compiler::query::hover_type(path, src, u32::MAX, u32::MAX); let _ = compiler::query::dot_completions(path, src, u32::MAX, u32::MAX);
            json!({"positions": n})
        }
        "query_one" => {
            // one editor query at one position: which (hover | dot | colon), text, line, col
            let which = a[0].as_str().unwrap(); let src = a[1].as_str().unwrap(); let path = std::path::Path::new("q.gom");
            let line = a[2].as_u64().unwrap() as u32; let col = a[3].as_u64().unwrap() as u32;
            match which {
                "hover" => json!({"hover": format!("{:?}", compiler::query::hover_type(path, src, line, col))}),
                "dot" => json!({"dot": compiler::query::dot_completions(path, src, line, col).map(|v| v.into_iter().map(|i| i.name).collect::<Vec<_>>())}),
                _ => json!({"colon": compiler::query::colon_colon_completions(path, src, line, col).map(|v| v.into_iter().map(|i| i.name).collect::<Vec<_>>())}),
            }
        }
        "query_file" => {
            // an editor query on a file on disk (so that imports resolve): which (hover | dot | colon), path, line, col
            let which = a[0].as_str().unwrap(); let path = std::path::Path::new(a[1].as_str().unwrap()); let src = std::fs::read_to_string(path).unwrap();
            let line = a[2].as_u64().unwrap() as u32; let col = a[3].as_u64().unwrap() as u32;
            match which {
                "hover" => json!({"hover": format!("{:?}", compiler::query::hover_type(path, &src, line, col))}),
                "dot" => json!({"dot": compiler::query::dot_completions(path, &src, line, col).map(|v| v.into_iter().map(|i| i.name).collect::<Vec<_>>())}),
                _ => json!({"colon": compiler::query::colon_colon_completions(path, &src, line, col).map(|v| v.into_iter().map(|i| i.name).collect::<Vec<_>>())}),
            }
        }
        "encode_ty" => json!(compiler::go::mangle::encode_ty(&ty_from_json(&a[0]))),
        _ => json!({"error": format!("unknown fn {f}")}),
    }
}

fn main() {
    for line in std::io::stdin().lock().lines() {
        let line = line.unwrap();
        if line.trim().is_empty() { continue; }
        let req: Value = serde_json::from_str(&line).unwrap();
        let r = std::panic::catch_unwind(|| handle(&req));
        match r {
            Ok(v) => println!("{}", json!({"ok": v})),
            Err(_) => println!("{}", json!({"panic": true})),
        }
    }
}
